#!/bin/bash
# offline build of the verifier (x/tools v0.50.0 comes from the module cache)
set -e
DIR="$(cd "$(dirname "$0")" && pwd)"
export PATH=/opt/veriftools/go1.26.8/bin:$PATH
export GOTOOLCHAIN=local GOFLAGS=-mod=mod GOPROXY=off GOSUMDB=off
mkdir -p "$DIR/bin" "$DIR/evidence" "$DIR/replays"
cd "$DIR/govc" && go build -o "$DIR/bin/govc" .
# warm the build cache for the repository packages (export data used by go/packages)
cd /repo && GOFLAGS= go build -tags purego,verif ./... >/dev/null 2>&1 || true
echo setup ok
