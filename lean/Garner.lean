import Mathlib

/-- Garner recombination has the right residues (used as lemma GarnerResidues by govc, property C16/C17). -/
theorem garner_residues (mp mq p q qinv : ℤ) (hp : 0 < p) (hq : 0 < q) (h0 : 0 ≤ mq) (h1 : mq < q)
    (hinv : (qinv * q) % p = 1) :
    (mq + q * ((((mp - mq) % p) * qinv) % p)) % q = mq ∧
    (mq + q * ((((mp - mq) % p) * qinv) % p)) % p = mp % p := by
  constructor
  · rw [Int.add_mul_emod_self_left]
    exact Int.emod_eq_of_lt h0 h1
  · have h1p : (1 : ℤ) % p = 1 ∨ p = 1 := by
      by_cases hp1 : p = 1
      · right; exact hp1
      · left; exact Int.emod_eq_of_lt (by norm_num) (by omega)
    have key : (mq + q * ((((mp - mq) % p) * qinv) % p)) ≡ mp [ZMOD p] := by
      have e1 : ((((mp - mq) % p) * qinv) % p) ≡ (mp - mq) * qinv [ZMOD p] := by
        have : (mp - mq) % p ≡ (mp - mq) [ZMOD p] := Int.mod_modEq _ _
        exact (Int.mod_modEq _ _).trans (this.mul_right qinv)
      have e2 : q * ((((mp - mq) % p) * qinv) % p) ≡ q * ((mp - mq) * qinv) [ZMOD p] := e1.mul_left q
      have e3 : q * ((mp - mq) * qinv) = (mp - mq) * (qinv * q) := by ring
      have e4 : qinv * q ≡ 1 [ZMOD p] := by
        unfold Int.ModEq
        rw [hinv]
        rcases h1p with h | h
        · exact h.symm
        · subst h; simp at hinv
      have e5 : (mp - mq) * (qinv * q) ≡ (mp - mq) * 1 [ZMOD p] := e4.mul_left _
      calc mq + q * ((((mp - mq) % p) * qinv) % p)
          ≡ mq + q * ((mp - mq) * qinv) [ZMOD p] := e2.add_left mq
        _ = mq + (mp - mq) * (qinv * q) := by rw [e3]
        _ ≡ mq + (mp - mq) * 1 [ZMOD p] := e5.add_left mq
        _ = mp := by ring
    exact key
