#!/bin/bash
# runs every claimed quick check on the current tree (refreshes evidence); prints one line per property
cd /verif
for p in $(python3 -c "import json;print(' '.join(c['property_id'] for c in json.load(open('MANIFEST.json'))['checks']))"); do
  ./check $p --tier ${1:-quick} > /tmp/runall.$p.log 2>&1; code=$?
  echo "$p exit=$code $(tail -1 /tmp/runall.$p.log)"
done
