package main

import (
	"fmt"
	"os"
	"path/filepath"
	"strings"
	"unicode"
)

// ---------------------------------------------------------------- spec expression AST

type SExpr struct {
	Kind string // ident, int, str, unary, binary, call, index, slice, sel, quant, old, lambda
	Name string // ident name / operator / selector field / quant kind
	Args []*SExpr
	Vars []QVar // quant
	Pos  string
}

type QVar struct {
	Name string
	Type string
}

func (e *SExpr) String() string {
	switch e.Kind {
	case "ident", "int":
		return e.Name
	case "str":
		return fmt.Sprintf("%q", e.Name)
	case "unary":
		return e.Name + e.Args[0].String()
	case "binary":
		return "(" + e.Args[0].String() + " " + e.Name + " " + e.Args[1].String() + ")"
	case "call":
		var as []string
		for _, a := range e.Args[1:] {
			as = append(as, a.String())
		}
		return e.Args[0].String() + "(" + strings.Join(as, ", ") + ")"
	case "index":
		return e.Args[0].String() + "[" + e.Args[1].String() + "]"
	case "slice":
		s := e.Args[0].String() + "["
		if e.Args[1] != nil {
			s += e.Args[1].String()
		}
		s += ":"
		if e.Args[2] != nil {
			s += e.Args[2].String()
		}
		return s + "]"
	case "sel":
		return e.Args[0].String() + "." + e.Name
	case "old":
		return "old(" + e.Args[0].String() + ")"
	case "quant":
		var vs []string
		for _, v := range e.Vars {
			vs = append(vs, v.Name+" "+v.Type)
		}
		return "(" + e.Name + " " + strings.Join(vs, ", ") + " :: " + e.Args[0].String() + ")"
	}
	return "?"
}

// ---------------------------------------------------------------- lexer

type tok struct {
	kind string // ident, int, str, op, eof
	s    string
}

func lexSpec(src string) ([]tok, error) {
	var toks []tok
	i := 0
	for i < len(src) {
		c := src[i]
		switch {
		case c == ' ' || c == '\t' || c == '\n' || c == '\r':
			i++
		case unicode.IsLetter(rune(c)) || c == '_' || c == '$':
			j := i + 1
			for j < len(src) && (unicode.IsLetter(rune(src[j])) || unicode.IsDigit(rune(src[j])) || src[j] == '_' || src[j] == '$') {
				j++
			}
			toks = append(toks, tok{"ident", src[i:j]})
			i = j
		case c >= '0' && c <= '9':
			j := i + 1
			for j < len(src) && (src[j] >= '0' && src[j] <= '9' || src[j] == 'x' || src[j] == 'X' || src[j] == '_' || (src[j] >= 'a' && src[j] <= 'f') || (src[j] >= 'A' && src[j] <= 'F')) {
				j++
			}
			toks = append(toks, tok{"int", strings.ReplaceAll(src[i:j], "_", "")})
			i = j
		case c == '"':
			j := i + 1
			for j < len(src) && src[j] != '"' {
				if src[j] == '\\' {
					j++
				}
				j++
			}
			if j >= len(src) {
				return nil, fmt.Errorf("unterminated string")
			}
			toks = append(toks, tok{"str", src[i+1 : j]})
			i = j + 1
		case c == '\'':
			// rune literal
			j := i + 1
			for j < len(src) && src[j] != '\'' {
				j++
			}
			r := []rune(src[i+1 : j])
			toks = append(toks, tok{"int", fmt.Sprintf("%d", r[0])})
			i = j + 1
		default:
			ops := []string{"...", "<==>", "==>", "::", "&&", "||", "==", "!=", "<=", ">=", "<<", ">>", "&^", "+", "-", "*", "/", "%", "<", ">", "!", "&", "|", "^", "(", ")", "[", "]", ",", ".", ":", "{", "}"}
			matched := false
			for _, op := range ops {
				if strings.HasPrefix(src[i:], op) {
					toks = append(toks, tok{"op", op})
					i += len(op)
					matched = true
					break
				}
			}
			if !matched {
				return nil, fmt.Errorf("unexpected character %q at %d in %q", c, i, src)
			}
		}
	}
	toks = append(toks, tok{"eof", ""})
	return toks, nil
}

type sparser struct {
	toks []tok
	p    int
	src  string
}

func (p *sparser) peek() tok { return p.toks[p.p] }
func (p *sparser) next() tok { t := p.toks[p.p]; p.p++; return t }
func (p *sparser) accept(s string) bool {
	if p.peek().kind == "op" && p.peek().s == s {
		p.p++
		return true
	}
	return false
}
func (p *sparser) expect(s string) {
	if !p.accept(s) {
		panic(fmt.Sprintf("spec parse: expected %q got %q in %q", s, p.peek().s, p.src))
	}
}

var binPrec = map[string]int{
	"<==>": 1, "==>": 2, "||": 3, "&&": 4,
	"==": 5, "!=": 5, "<": 5, "<=": 5, ">": 5, ">=": 5, "in": 5,
	"+": 6, "-": 6, "|": 6, "^": 6,
	"*": 7, "/": 7, "%": 7, "<<": 7, ">>": 7, "&": 7, "&^": 7,
}

func parseSpecExpr(src string) (e *SExpr, err error) {
	defer func() {
		if r := recover(); r != nil {
			err = fmt.Errorf("%v", r)
		}
	}()
	toks, lerr := lexSpec(src)
	if lerr != nil {
		return nil, lerr
	}
	p := &sparser{toks: toks, src: src}
	e = p.parseExpr(0)
	if p.peek().kind != "eof" {
		panic(fmt.Sprintf("spec parse: trailing %q in %q", p.peek().s, src))
	}
	return e, nil
}

func (p *sparser) parseExpr(minPrec int) *SExpr {
	// quantifiers bind loosest
	if p.peek().kind == "ident" && (p.peek().s == "forall" || p.peek().s == "exists") {
		q := p.next().s
		var vars []QVar
		for {
			name := p.next()
			if name.kind != "ident" {
				panic("spec parse: quantifier var expected in " + p.src)
			}
			typ := ""
			// type: ident(.ident)? possibly with [] prefix
			for p.peek().kind == "ident" || (p.peek().kind == "op" && (p.peek().s == "." || p.peek().s == "[" || p.peek().s == "]" || p.peek().s == "*")) {
				typ += p.next().s
			}
			vars = append(vars, QVar{name.s, typ})
			if !p.accept(",") {
				break
			}
		}
		// propagate types backwards: "i, j int"
		for i := len(vars) - 2; i >= 0; i-- {
			if vars[i].Type == "" {
				vars[i].Type = vars[i+1].Type
			}
		}
		p.expect("::")
		body := p.parseExpr(0)
		return &SExpr{Kind: "quant", Name: q, Vars: vars, Args: []*SExpr{body}}
	}
	lhs := p.parseUnary()
	for {
		t := p.peek()
		var op string
		if t.kind == "op" {
			op = t.s
		} else if t.kind == "ident" && t.s == "in" {
			op = "in"
		} else {
			break
		}
		prec, ok := binPrec[op]
		if !ok || prec < minPrec {
			break
		}
		p.next()
		var rhs *SExpr
		if op == "==>" || op == "<==>" {
			rhs = p.parseExpr(prec) // right assoc
		} else {
			rhs = p.parseExpr(prec + 1)
		}
		lhs = &SExpr{Kind: "binary", Name: op, Args: []*SExpr{lhs, rhs}}
	}
	return lhs
}

func (p *sparser) parseUnary() *SExpr {
	t := p.peek()
	if t.kind == "op" && (t.s == "!" || t.s == "-" || t.s == "*" || t.s == "&" || t.s == "^") {
		p.next()
		x := p.parseUnary()
		return &SExpr{Kind: "unary", Name: t.s, Args: []*SExpr{x}}
	}
	return p.parsePostfix(p.parsePrimary())
}

func (p *sparser) parsePrimary() *SExpr {
	t := p.next()
	switch t.kind {
	case "int":
		return &SExpr{Kind: "int", Name: t.s}
	case "str":
		return &SExpr{Kind: "str", Name: t.s}
	case "ident":
		if t.s == "old" && p.peek().kind == "op" && p.peek().s == "(" {
			p.next()
			x := p.parseExpr(0)
			p.expect(")")
			return &SExpr{Kind: "old", Args: []*SExpr{x}}
		}
		if (t.s == "forall" || t.s == "exists") {
			p.p--
			return p.parseExpr(0)
		}
		return &SExpr{Kind: "ident", Name: t.s}
	case "op":
		if t.s == "(" {
			x := p.parseExpr(0)
			p.expect(")")
			return x
		}
	}
	panic(fmt.Sprintf("spec parse: unexpected %q in %q", t.s, p.src))
}

func (p *sparser) parsePostfix(x *SExpr) *SExpr {
	for {
		switch {
		case p.accept("."):
			n := p.next()
			if n.kind == "op" && n.s == "(" {
				// type assertion x.(T): ignore
				for !p.accept(")") {
					p.next()
				}
				continue
			}
			x = &SExpr{Kind: "sel", Name: n.s, Args: []*SExpr{x}}
		case p.accept("("):
			args := []*SExpr{x}
			ellipsis := false
			if !p.accept(")") {
				for {
					args = append(args, p.parseExpr(0))
					// f(xs...): the slice is passed as the variadic parameter
					if p.peek().kind == "op" && p.peek().s == "..." {
						p.next()
						ellipsis = true
					} else if p.peek().kind == "op" && p.peek().s == "." {
						save := p.p
						if p.accept(".") && p.accept(".") && p.accept(".") {
							ellipsis = true
						} else {
							p.p = save
						}
					}
					if p.accept(")") {
						break
					}
					p.expect(",")
				}
			}
			x = &SExpr{Kind: "call", Args: args}
			if ellipsis {
				x.Name = "..."
			}
		case p.accept("["):
			var lo, hi *SExpr
			if p.peek().kind == "op" && p.peek().s == ":" {
				p.next()
				if !(p.peek().kind == "op" && p.peek().s == "]") {
					hi = p.parseExpr(0)
				}
				p.expect("]")
				x = &SExpr{Kind: "slice", Args: []*SExpr{x, nil, hi}}
				continue
			}
			lo = p.parseExpr(0)
			if p.accept(":") {
				if !(p.peek().kind == "op" && p.peek().s == "]") {
					hi = p.parseExpr(0)
				}
				p.expect("]")
				x = &SExpr{Kind: "slice", Args: []*SExpr{x, lo, hi}}
				continue
			}
			p.expect("]")
			x = &SExpr{Kind: "index", Args: []*SExpr{x, lo}}
		default:
			return x
		}
	}
}

// ---------------------------------------------------------------- contract files

type Clause struct {
	Kind string // requires, ensures, invariant, modifies, decreases, assert
	Text string
	Expr *SExpr
	File string
	Line int
	Unproved bool // stated but not claimed (reported in evidence)
	Free bool // "free" clause: assumed, not proved (listed as assumption)
}

type LoopContract struct {
	Key        string
	Invariants []*Clause
	Modifies   []string
	Decreases  *Clause
	used       bool
}

// AssertHint: an intermediate assertion (proved, then assumed) anchored before/after the first statement whose
// source text starts with Anchor.
type AssertHint struct {
	When   string // before | after
	Anchor string
	Clause *Clause
	used   bool
	matchedAt map[int]bool // statement positions the anchor matched (more than one: ambiguous)
	// proof by case split: the assertion is proved separately for every value lo..hi of a local integer variable
	CaseVar string
	CaseLo  int64
	CaseHi  int64
	// ghost assignment (ghostset): Target [Index] = Value instead of an assertion
	Target string
	Index  *SExpr
	Value  *SExpr
}

type FuncContract struct {
	Asserts    []*AssertHint
	GhostVars  []QVar // ghost variables of the function (ghostvar name Type): specification-only state
	PkgPath    string
	Key        string // "(*T).M" or "T.M" or "F"
	Properties []string
	Requires   []*Clause
	Ensures    []*Clause
	Modifies   []string
	Binds      map[string]string
	Loops      []*LoopContract
	NoPanic    bool
	Assumed    bool // trusted: contract is used by callers but not proved on the code
	Pure       bool // callee is a pure function (no heap effect); default for contracts without modifies
	Lets       [][2]string
	Mode       string
	File       string
	Line       int
	Opts       map[string]string
	matched    bool
}

type GhostFunc struct {
	PkgPath string // package whose contract file defines it (its unexported identifiers are visible in the body)
	Name   string
	Params []QVar
	Ret    string
	Body   *SExpr // nil for uninterpreted
	File   string
}

type Axiom struct {
	Name       string
	Expr       *SExpr
	Text       string
	PkgPath    string
	File       string
	Lemma      bool
	Properties []string
	Uses       []string // theory names / axiom names a lemma may use
	Theory     string   // axioms are grouped into theories, included on demand
	Induction  string
	Cases      []CaseVar
}

type CaseVar struct {
	Name   string
	Lo, Hi int64
}

type Contracts struct {
	Funcs   map[string]*FuncContract // key: pkgpath + "::" + funckey
	Ghosts  map[string]*GhostFunc
	Axioms  []*Axiom
	Lemmas  []*Axiom
	Files   []string
	GhostFields map[string]*GhostField
	TypeInvs    map[string]string // type name -> ghost predicate
	LoadAlso    map[string][]string // package path -> packages to type-check from source as well (their contracts name unexported identifiers)
}

// GhostField: ghost heap field "ghostfield name Sort [of TypeName]" -- state attached to an object (reference).
type GhostField struct {
	Name string
	Sort string
	Of   string // type name whose struct copies carry the field along
}

func newContracts() *Contracts {
	return &Contracts{Funcs: map[string]*FuncContract{}, Ghosts: map[string]*GhostFunc{}, GhostFields: map[string]*GhostField{}}
}

var clauseKeywords = map[string]bool{
	"func": true, "loop": true, "requires": true, "ensures": true, "invariant": true, "modifies": true,
	"property": true, "bind": true, "nopanic": true, "assumed": true, "ghost": true, "pure": true,
	"axiom": true, "lemma": true, "let": true, "decreases": true, "mode": true, "unproved": true,
	"package": true, "theory": true, "cases": true, "uses": true, "opt": true, "free": true, "end": true, "ghostfield": true, "purefn": true, "assert": true, "typeinv": true, "ghostvar": true, "ghostset": true, "loadalso": true,
}

type rawClause struct {
	kw   string
	text string
	line int
}

// parseContractFile reads //@ lines of a Go file (or every line of a .spec file).
func (cs *Contracts) parseFile(path string, pkgPath string) error {
	data, err := os.ReadFile(path)
	if err != nil {
		return err
	}
	isSpec := strings.HasSuffix(path, ".spec")
	var raws []rawClause
	for i, line := range strings.Split(string(data), "\n") {
		var body string
		if isSpec {
			t := strings.TrimSpace(line)
			if t == "" || strings.HasPrefix(t, "#") {
				continue
			}
			body = line
		} else {
			t := strings.TrimSpace(line)
			if !strings.HasPrefix(t, "//@") {
				continue
			}
			body = strings.TrimPrefix(t, "//@")
		}
		// strip trailing comment " // ..."
		if k := strings.Index(body, " // "); k >= 0 {
			body = body[:k]
		}
		tb := strings.TrimSpace(body)
		if tb == "" {
			continue
		}
		first := tb
		if k := strings.IndexAny(tb, " \t:"); k >= 0 {
			first = tb[:k]
		}
		if clauseKeywords[first] {
			raws = append(raws, rawClause{kw: first, text: strings.TrimSpace(tb[len(first):]), line: i + 1})
		} else if len(raws) > 0 {
			raws[len(raws)-1].text += " " + tb
		} else {
			return fmt.Errorf("%s:%d: continuation line without clause", path, i+1)
		}
	}
	cs.Files = append(cs.Files, path)
	var cur *FuncContract
	var curLoop *LoopContract
	var curLemma *Axiom
	curTheory := ""
	unproved := false
	free := false
	mkClause := func(kind string, r rawClause) (*Clause, error) {
		e, err := parseSpecExpr(r.text)
		if err != nil {
			return nil, fmt.Errorf("%s:%d: %v", path, r.line, err)
		}
		c := &Clause{Kind: kind, Text: r.text, Expr: e, File: path, Line: r.line, Unproved: unproved, Free: free}
		unproved = false
		free = false
		return c, nil
	}
	for _, r := range raws {
		switch r.kw {
		case "package":
			pkgPath = strings.TrimSpace(r.text)
			cur, curLoop, curLemma = nil, nil, nil
		case "theory":
			curTheory = strings.TrimSpace(r.text)
		case "end":
			cur, curLoop, curLemma = nil, nil, nil
			curTheory = ""
		case "func":
			key := strings.TrimSpace(r.text)
			cur = &FuncContract{PkgPath: pkgPath, Key: key, Binds: map[string]string{}, File: path, Line: r.line, Opts: map[string]string{}}
			curLoop, curLemma = nil, nil
			k := pkgPath + "::" + key
			if _, dup := cs.Funcs[k]; dup {
				return fmt.Errorf("%s:%d: duplicate contract for %s", path, r.line, k)
			}
			cs.Funcs[k] = cur
		case "loop":
			if cur == nil {
				return fmt.Errorf("%s:%d: loop outside func", path, r.line)
			}
			curLoop = &LoopContract{Key: strings.TrimSpace(r.text)}
			cur.Loops = append(cur.Loops, curLoop)
		case "property":
			ps := strings.FieldsFunc(r.text, func(c rune) bool { return c == ',' || c == ' ' })
			if curLemma != nil {
				curLemma.Properties = append(curLemma.Properties, ps...)
			} else if cur != nil {
				cur.Properties = append(cur.Properties, ps...)
			}
		case "uses":
			us := strings.FieldsFunc(r.text, func(c rune) bool { return c == ',' || c == ' ' })
			if curLemma != nil {
				curLemma.Uses = append(curLemma.Uses, us...)
			} else if cur != nil {
				cur.Opts["uses"] += " " + strings.Join(us, " ")
			}
		case "cases":
			if curLemma != nil {
				for _, it := range strings.Split(r.text, ",") {
					f := strings.Fields(it)
					if len(f) == 3 {
						var lo, hi int64
						fmt.Sscanf(f[1], "%d", &lo)
						fmt.Sscanf(f[2], "%d", &hi)
						curLemma.Cases = append(curLemma.Cases, CaseVar{f[0], lo, hi})
					}
				}
			}
		case "opt":
			kv := strings.SplitN(strings.TrimSpace(r.text), "=", 2)
			if cur != nil && len(kv) == 2 {
				cur.Opts[strings.TrimSpace(kv[0])] = strings.TrimSpace(kv[1])
			}
		case "bind":
			for _, b := range strings.Split(r.text, ",") {
				kv := strings.Fields(strings.TrimSpace(b))
				if len(kv) == 2 && cur != nil {
					cur.Binds[kv[0]] = kv[1]
				}
			}
		case "mode":
			if cur != nil {
				cur.Mode = strings.TrimSpace(r.text)
			}
		case "assert":
			if err := cs.parseAssert(cur, r, path); err != nil {
				return err
			}
		case "loadalso":
			// loadalso <import path>: callee contracts of that package mention its unexported identifiers, so it must be
			// loaded from source (not export data) whenever functions of this package are verified
			if cs.LoadAlso == nil {
				cs.LoadAlso = map[string][]string{}
			}
			cs.LoadAlso[pkgPath] = append(cs.LoadAlso[pkgPath], strings.Fields(r.text)...)
		case "ghostvar":
			// ghostvar name Type : specification-only variable of the function (initially unconstrained)
			f := strings.Fields(r.text)
			if cur == nil || len(f) < 2 {
				return fmt.Errorf("%s:%d: ghostvar needs 'name Type' inside a func contract", path, r.line)
			}
			cur.GhostVars = append(cur.GhostVars, QVar{f[0], strings.Join(f[1:], "")})
		case "ghostset":
			// ghostset before|after "stmt text": name = expr   |   name[idx] = expr
			if cur == nil {
				return fmt.Errorf("%s:%d: ghostset outside func", path, r.line)
			}
			t := strings.TrimSpace(r.text)
			when := ""
			for _, w := range []string{"before", "after"} {
				if strings.HasPrefix(t, w+" ") {
					when = w
					t = strings.TrimSpace(t[len(w):])
				}
			}
			if when == "" || !strings.HasPrefix(t, "\"") {
				return fmt.Errorf("%s:%d: ghostset needs before|after \"anchor\": x = expr", path, r.line)
			}
			end := strings.Index(t[1:], "\"")
			if end < 0 {
				return fmt.Errorf("%s:%d: unterminated anchor", path, r.line)
			}
			anchor := t[1 : 1+end]
			rest := strings.TrimSpace(strings.TrimPrefix(strings.TrimSpace(t[2+end:]), ":"))
			eq := topLevelAssign(rest)
			if eq < 0 {
				return fmt.Errorf("%s:%d: ghostset needs 'x = expr'", path, r.line)
			}
			lhs, rhs := strings.TrimSpace(rest[:eq]), strings.TrimSpace(rest[eq+1:])
			h := &AssertHint{When: when, Anchor: anchor, Clause: &Clause{Kind: "ghostset", Text: rest, File: path, Line: r.line}}
			if k := strings.Index(lhs, "["); k > 0 && strings.HasSuffix(lhs, "]") {
				ie, err := parseSpecExpr(lhs[k+1 : len(lhs)-1])
				if err != nil {
					return fmt.Errorf("%s:%d: %v", path, r.line, err)
				}
				h.Index = ie
				lhs = strings.TrimSpace(lhs[:k])
			}
			h.Target = lhs
			ve, err := parseSpecExpr(rhs)
			if err != nil {
				return fmt.Errorf("%s:%d: %v", path, r.line, err)
			}
			h.Value = ve
			cur.Asserts = append(cur.Asserts, h)
		case "nopanic":
			if cur != nil {
				if strings.TrimSpace(r.text) == "explicit" {
					// only explicit panic(...) statements must be unreachable (no index/division obligations)
					cur.Opts["explicitpanic"] = "on"
				} else {
					cur.NoPanic = true
				}
			}
		case "assumed":
			if cur != nil {
				cur.Assumed = true
			}
		case "unproved":
			unproved = true
			// "unproved ensures ..." on one line
			rest := strings.TrimSpace(r.text)
			if rest != "" {
				kw := strings.Fields(rest)[0]
				r2 := rawClause{kw: kw, text: strings.TrimSpace(rest[len(kw):]), line: r.line}
				c, err := mkClause(kw, r2)
				if err != nil {
					return err
				}
				if err := attachClause(cur, curLoop, c); err != nil {
					return fmt.Errorf("%s:%d: %v", path, r.line, err)
				}
			}
		case "free":
			free = true
			rest := strings.TrimSpace(r.text)
			if strings.HasPrefix(rest, "assert ") {
				// free assert before|after "anchor": expr  -- a fact assumed at that point (listed as an assumption)
				raws2 := rawClause{kw: "assert", text: strings.TrimSpace(rest[len("assert"):]), line: r.line}
				n0 := 0
				if cur != nil {
					n0 = len(cur.Asserts)
				}
				if err := cs.parseAssert(cur, raws2, path); err != nil {
					return err
				}
				if cur != nil && len(cur.Asserts) > n0 {
					cur.Asserts[len(cur.Asserts)-1].Clause.Free = true
				}
				free = false
				continue
			}
			if rest != "" {
				kw := strings.Fields(rest)[0]
				r2 := rawClause{kw: kw, text: strings.TrimSpace(rest[len(kw):]), line: r.line}
				c, err := mkClause(kw, r2)
				if err != nil {
					return err
				}
				if err := attachClause(cur, curLoop, c); err != nil {
					return fmt.Errorf("%s:%d: %v", path, r.line, err)
				}
			}
		case "requires", "ensures", "invariant", "decreases":
			c, err := mkClause(r.kw, r)
			if err != nil {
				return err
			}
			if err := attachClause(cur, curLoop, c); err != nil {
				return fmt.Errorf("%s:%d: %v", path, r.line, err)
			}
		case "modifies":
			items := splitTop(r.text)
			if curLoop != nil {
				curLoop.Modifies = append(curLoop.Modifies, items...)
			} else if cur != nil {
				cur.Modifies = append(cur.Modifies, items...)
			}
		case "let":
			kv := strings.SplitN(r.text, "=", 2)
			if len(kv) == 2 && cur != nil {
				cur.Lets = append(cur.Lets, [2]string{strings.TrimSpace(kv[0]), strings.TrimSpace(kv[1])})
			}
		case "typeinv":
			// typeinv pkg.Type: ghostPredicateName
			kv := strings.SplitN(r.text, ":", 2)
			if len(kv) != 2 {
				return fmt.Errorf("%s:%d: typeinv needs 'Type: predicate'", path, r.line)
			}
			if cs.TypeInvs == nil {
				cs.TypeInvs = map[string]string{}
			}
			cs.TypeInvs[strings.TrimSpace(kv[0])] = strings.TrimSpace(kv[1])
		case "ghostfield":
			f := strings.Fields(r.text)
			if len(f) < 2 {
				return fmt.Errorf("%s:%d: ghostfield needs 'name Sort [of Type]'", path, r.line)
			}
			gf := &GhostField{Name: f[0], Sort: f[1]}
			if len(f) >= 4 && f[2] == "of" {
				gf.Of = f[3]
			}
			cs.GhostFields[gf.Name] = gf
		case "purefn":
			if cur != nil {
				cur.Pure = true
			}
		case "ghost", "pure":
			g, err := parseGhost(r.text, path, r.line)
			if err != nil {
				return err
			}
			g.PkgPath = pkgPath
			cs.Ghosts[g.Name] = g
		case "axiom", "lemma":
			kv := strings.SplitN(r.text, ":", 2)
			if len(kv) != 2 {
				return fmt.Errorf("%s:%d: axiom/lemma needs 'Name: expr'", path, r.line)
			}
			name := strings.TrimSpace(kv[0])
			ind := ""
			if f := strings.Fields(name); len(f) >= 4 && f[1] == "by" && f[2] == "induction" {
				name, ind = f[0], f[3]
			}
			e, err := parseSpecExpr(kv[1])
			if err != nil {
				return fmt.Errorf("%s:%d: %v", path, r.line, err)
			}
			a := &Axiom{Name: name, Expr: e, Text: strings.TrimSpace(kv[1]), PkgPath: pkgPath, File: path, Lemma: r.kw == "lemma", Theory: curTheory, Induction: ind}
			if a.Lemma {
				cs.Lemmas = append(cs.Lemmas, a)
				curLemma = a
				cur, curLoop = nil, nil
			} else {
				cs.Axioms = append(cs.Axioms, a)
			}
		}
	}
	return nil
}

func attachClause(cur *FuncContract, curLoop *LoopContract, c *Clause) error {
	switch c.Kind {
	case "requires":
		if cur == nil {
			return fmt.Errorf("requires outside func")
		}
		cur.Requires = append(cur.Requires, c)
	case "ensures":
		if cur == nil {
			return fmt.Errorf("ensures outside func")
		}
		cur.Ensures = append(cur.Ensures, c)
	case "invariant":
		if curLoop == nil {
			return fmt.Errorf("invariant outside loop")
		}
		curLoop.Invariants = append(curLoop.Invariants, c)
	case "decreases":
		if curLoop != nil {
			curLoop.Decreases = c
		}
	default:
		return fmt.Errorf("unknown clause kind %s", c.Kind)
	}
	return nil
}

func splitTop(s string) []string {
	var out []string
	depth := 0
	start := 0
	for i, c := range s {
		switch c {
		case '(', '[':
			depth++
		case ')', ']':
			depth--
		case ',':
			if depth == 0 {
				out = append(out, strings.TrimSpace(s[start:i]))
				start = i + 1
			}
		}
	}
	if strings.TrimSpace(s[start:]) != "" {
		out = append(out, strings.TrimSpace(s[start:]))
	}
	return out
}

// "func Name(a T, b T) R" optionally "= expr"
func parseGhost(text, path string, line int) (*GhostFunc, error) {
	t := strings.TrimSpace(text)
	t = strings.TrimPrefix(t, "func")
	t = strings.TrimSpace(t)
	op := strings.Index(t, "(")
	if op < 0 {
		return nil, fmt.Errorf("%s:%d: bad ghost decl", path, line)
	}
	name := strings.TrimSpace(t[:op])
	depth := 0
	cl := -1
	for i := op; i < len(t); i++ {
		if t[i] == '(' {
			depth++
		}
		if t[i] == ')' {
			depth--
			if depth == 0 {
				cl = i
				break
			}
		}
	}
	if cl < 0 {
		return nil, fmt.Errorf("%s:%d: bad ghost decl", path, line)
	}
	g := &GhostFunc{Name: name, File: path}
	for _, p := range splitTop(t[op+1 : cl]) {
		f := strings.Fields(p)
		if len(f) == 1 {
			g.Params = append(g.Params, QVar{f[0], ""})
		} else if len(f) >= 2 {
			g.Params = append(g.Params, QVar{f[0], strings.Join(f[1:], "")})
		}
	}
	for i := len(g.Params) - 2; i >= 0; i-- {
		if g.Params[i].Type == "" {
			g.Params[i].Type = g.Params[i+1].Type
		}
	}
	rest := strings.TrimSpace(t[cl+1:])
	if k := strings.Index(rest, "="); k >= 0 {
		g.Ret = strings.TrimSpace(rest[:k])
		e, err := parseSpecExpr(rest[k+1:])
		if err != nil {
			return nil, fmt.Errorf("%s:%d: %v", path, line, err)
		}
		g.Body = e
	} else {
		g.Ret = rest
	}
	if g.Ret == "" {
		g.Ret = "bool"
	}
	return g, nil
}

// loadContracts: all zz_contracts_verif.go under /repo/pkg plus /verif/specs/*.spec
func loadContracts(repo string, specDir string, modPath string) (*Contracts, error) {
	cs := newContracts()
	specs, _ := filepath.Glob(filepath.Join(specDir, "*.spec"))
	for _, s := range specs {
		if err := cs.parseFile(s, ""); err != nil {
			return nil, err
		}
	}
	err := filepath.Walk(filepath.Join(repo, "pkg"), func(p string, info os.FileInfo, err error) error {
		if err != nil {
			return nil
		}
		if !info.IsDir() && strings.HasPrefix(info.Name(), "zz_contracts") && strings.HasSuffix(info.Name(), "_verif.go") {
			rel, _ := filepath.Rel(repo, filepath.Dir(p))
			if e := cs.parseFile(p, modPath+"/"+filepath.ToSlash(rel)); e != nil {
				return e
			}
		}
		return nil
	})
	return cs, err
}


// topLevelAssign: position of the first '=' that is an assignment (not part of ==, <=, >=, !=, ==>) outside brackets
func topLevelAssign(s string) int {
	depth := 0
	for i := 0; i < len(s); i++ {
		switch s[i] {
		case '(', '[':
			depth++
		case ')', ']':
			depth--
		case '=':
			if depth != 0 {
				continue
			}
			if i+1 < len(s) && s[i+1] == '=' {
				return -1
			}
			if i > 0 && strings.ContainsRune("<>!=", rune(s[i-1])) {
				return -1
			}
			return i
		}
	}
	return -1
}


// parseAssert: assert before|after "stmt text": expr
func (cs *Contracts) parseAssert(cur *FuncContract, r rawClause, path string) error {
	if cur == nil {
		return fmt.Errorf("%s:%d: assert outside func", path, r.line)
	}
	t := strings.TrimSpace(r.text)
	when := ""
	for _, w := range []string{"before", "after"} {
		if strings.HasPrefix(t, w+" ") {
			when = w
			t = strings.TrimSpace(t[len(w):])
		}
	}
	if when == "" || !strings.HasPrefix(t, "\"") {
		return fmt.Errorf("%s:%d: assert needs before|after \"anchor\": expr", path, r.line)
	}
	end := strings.Index(t[1:], "\"")
	if end < 0 {
		return fmt.Errorf("%s:%d: unterminated anchor", path, r.line)
	}
	anchor := t[1 : 1+end]
	rest := strings.TrimSpace(t[2+end:])
	caseVar := ""
	var lo, hi int64
	if strings.HasPrefix(rest, "cases ") {
		// assert after "stmt" cases k 0 15: expr
		if k := strings.Index(rest, ":"); k > 0 {
			f := strings.Fields(rest[len("cases"):k])
			if len(f) == 3 {
				caseVar = f[0]
				fmt.Sscanf(f[1], "%d", &lo)
				fmt.Sscanf(f[2], "%d", &hi)
			}
			rest = rest[k:]
		}
	}
	rest = strings.TrimPrefix(rest, ":")
	e, err := parseSpecExpr(strings.TrimSpace(rest))
	if err != nil {
		return fmt.Errorf("%s:%d: %v", path, r.line, err)
	}
	c := &Clause{Kind: "assert", Text: strings.TrimSpace(rest), Expr: e, File: path, Line: r.line}
	cur.Asserts = append(cur.Asserts, &AssertHint{When: when, Anchor: anchor, Clause: c, CaseVar: caseVar, CaseLo: lo, CaseHi: hi})
	return nil
}
