package main

import (
	"go/token"
	"go/types"
	"strings"
)

// algebra operations for an element sort
type ringOps struct {
	s *Sort
}

func (r ringOps) add(a, b *Term) *Term {
	if r.s.Kind == "Int" {
		return Add(a, b)
	}
	return App("g$radd", SV, a, b)
}
func (r ringOps) sub(a, b *Term) *Term {
	if r.s.Kind == "Int" {
		return Sub(a, b)
	}
	return App("g$rsub", SV, a, b)
}
func (r ringOps) mul(a, b *Term) *Term {
	if r.s.Kind == "Int" {
		return Mul(a, b)
	}
	return App("g$rmul", SV, a, b)
}
func (r ringOps) neg(a *Term) *Term {
	if r.s.Kind == "Int" {
		return Sub(IntLit(0), a)
	}
	return App("g$rneg", SV, a)
}
func (r ringOps) zero() *Term {
	if r.s.Kind == "Int" {
		return IntLit(0)
	}
	return Const("g$rzero", SV)
}
func (r ringOps) one() *Term {
	if r.s.Kind == "Int" {
		return IntLit(1)
	}
	return Const("g$rone", SV)
}

func gAdd(a, b *Term) *Term  { return App("g$gadd", SV, a, b) }
func gNeg(a *Term) *Term     { return App("g$gneg", SV, a) }
func gZero() *Term           { return Const("g$gzero", SV) }
func gSmul(s, p *Term) *Term {
	if s.Sort.Kind == "V" {
		return App("g$gsmul", SV, s, p)
	}
	return App("g$gsmulI", SV, s, p)
}

func ctBool(c *Term) *Term { return Ite(c, IntLit(1), IntLit(0)) }

// theoryCall models a method call on a receiver whose type is bound to an algebraic theory.
func (fc *FuncCtx) theoryCall(st *State, bind string, fn *types.Func, recv *Val, args []Val, resT types.Type, pos token.Pos) (Val, bool) {
	name := fn.Name()
	fc.theories[strings.TrimSuffix(bind, "ptr")] = true
	// helper: content of a pointer-ish argument
	deref := func(v Val) *Term {
		if v.Loc != nil {
			return fc.readLoc(st, v.Loc)
		}
		if pointee(v.Typ) != nil {
			l := fc.derefLoc(st, v, pos)
			return fc.readLoc(st, l)
		}
		return v.T
	}
	boolRes := func(c *Term) Val {
		// ct.Bool / ct.Choice are integers, bool is Bool
		if fc.sortOf(resT).Kind == "Bool" {
			return Val{T: c, Typ: resT}
		}
		return Val{T: ctBool(c), Typ: resT}
	}
	switch bind {
	case "ringptr", "groupptr":
		var rl *Loc
		if recv.Loc != nil {
			rl = recv.Loc
		} else {
			rl = fc.derefLoc(st, *recv, pos)
		}
		set := func(t *Term) (Val, bool) {
			fc.writeLoc(st, rl, fc.nameTerm(st, "t", t))
			return Val{}, true
		}
		if bind == "ringptr" {
			r := ringOps{rl.Sort}
			switch name {
			case "Set":
				return set(deref(args[0]))
			case "SetZero":
				return set(r.zero())
			case "SetOne":
				return set(r.one())
			case "Add":
				return set(r.add(deref(args[0]), deref(args[1])))
			case "Sub":
				return set(r.sub(deref(args[0]), deref(args[1])))
			case "Mul":
				return set(r.mul(deref(args[0]), deref(args[1])))
			case "Square":
				a := deref(args[0])
				return set(r.mul(a, a))
			case "Neg":
				return set(r.neg(deref(args[0])))
			case "Double":
				a := deref(args[0])
				return set(r.add(a, a))
			case "Select":
				c := args[0].T
				x0, x1 := deref(args[1]), deref(args[2])
				return set(Ite(Eq(c, IntLit(0)), x0, x1))
			case "SetUint64":
				// field elements as integers: the element denoted by a small constant is that integer
				if rl.Sort.Kind == "Int" && len(args) == 1 && args[0].T != nil && args[0].T.Sort.Kind == "Int" {
					fc.note("field SetUint64 modelled as the integer itself (ring homomorphism from the integers)")
					return set(args[0].T)
				}
			case "SetBytes":
				// the element denoted by a byte string: an uninterpreted function of the bytes; ok is 0 or 1
				if rl.Sort.Kind == "Int" && len(args) == 1 && args[0].T != nil && args[0].T.Sort.Kind == "Slice" {
					fc.note("field SetBytes modelled as an uninterpreted function of the byte string (generated field code)")
					fc.writeLoc(st, rl, fc.nameTerm(st, "t", App("fe$bytes", SInt, args[0].T)))
					okc := fc.freshConst("setok", SInt)
					st.assume(Or(Eq(okc, IntLit(0)), Eq(okc, IntLit(1))))
					return Val{T: okc, Typ: resT}, true
				}
			case "CondAssign":
				c := args[0].T
				return set(Ite(Eq(c, IntLit(0)), fc.readLoc(st, rl), deref(args[1])))
			case "IsZero":
				return boolRes(Eq(fc.readLoc(st, rl), r.zero())), true
			case "IsNonZero":
				return boolRes(Not(Eq(fc.readLoc(st, rl), r.zero()))), true
			case "IsOne":
				return boolRes(Eq(fc.readLoc(st, rl), r.one())), true
			case "Equal":
				return boolRes(Eq(fc.readLoc(st, rl), deref(args[0]))), true
			case "Sqrt":
				// ok is 0 or 1; ok == 1 implies recv*recv == a (whether a root exists is a property of the field)
				a := deref(args[0])
				rt := fc.freshConst("sqrt", rl.Sort)
				okc := fc.freshConst("sqrtok", SBool)
				st.assume(Implies(okc, Eq(r.mul(rt, rt), a)))
				fc.writeLoc(st, rl, rt)
				fc.note("field Sqrt modelled by its defining property: ok == 1 implies root*root == a (completeness of Sqrt is assumed of the generated field code)")
				return boolRes(okc), true
			case "Inv":
				// ok == 1 iff a != 0, and then recv*a == 1 ; when a == 0 the receiver content is unspecified
				a := deref(args[0])
				inv := fc.freshConst("inv", rl.Sort)
				st.assume(Implies(Not(Eq(a, r.zero())), Eq(r.mul(a, inv), r.one())))
				fc.writeLoc(st, rl, inv)
				fc.note("field Inv modelled by its defining equation a*inv == 1 for a != 0 (result unspecified for a == 0)")
				return boolRes(Not(Eq(a, r.zero()))), true
			}
		} else {
			switch name {
			case "Set":
				return set(deref(args[0]))
			case "SetZero":
				return set(gZero())
			case "Add":
				return set(gAdd(deref(args[0]), deref(args[1])))
			case "Sub":
				return set(gAdd(deref(args[0]), gNeg(deref(args[1]))))
			case "Neg":
				return set(gNeg(deref(args[0])))
			case "Double":
				a := deref(args[0])
				return set(gAdd(a, a))
			case "Select":
				c := args[0].T
				x0, x1 := deref(args[1]), deref(args[2])
				return set(Ite(Eq(c, IntLit(0)), x0, x1))
			case "IsZero":
				return boolRes(Eq(fc.readLoc(st, rl), gZero())), true
			case "IsNonZero":
				return boolRes(Not(Eq(fc.readLoc(st, rl), gZero()))), true
			case "Equal":
				return boolRes(Eq(fc.readLoc(st, rl), deref(args[0]))), true
			}
		}
		return Val{}, false
	case "ringint", "ring", "field":
		if recv.T == nil {
			return Val{}, false
		}
		r := ringOps{recv.T.Sort}
		x := recv.T
		val := func(t *Term) (Val, bool) { return Val{T: t, Typ: resT}, true }
		switch name {
		case "Add", "Op":
			return val(r.add(x, args[0].T))
		case "Sub":
			return val(r.sub(x, args[0].T))
		case "Mul", "OtherOp":
			return val(r.mul(x, args[0].T))
		case "Neg", "OpInv":
			return val(r.neg(x))
		case "Square":
			return val(r.mul(x, x))
		case "Double":
			return val(r.add(x, x))
		case "Clone":
			return val(x)
		case "IsZero", "IsOpIdentity":
			return boolRes(Eq(x, r.zero())), true
		case "IsOne":
			return boolRes(Eq(x, r.one())), true
		case "Equal":
			return boolRes(Eq(x, args[0].T)), true
		case "TryInv":
			inv := fc.freshConst("inv", x.Sort)
			errv := fc.freshConst("err", SV)
			st.assume(Eq(Eq(errv, Const("nil", SV)), Not(Eq(x, r.zero()))))
			st.assume(Implies(Not(Eq(x, r.zero())), Eq(r.mul(x, inv), r.one())))
			tup := resT.(*types.Tuple)
			return Val{Tuple: []Val{{T: inv, Typ: tup.At(0).Type()}, {T: errv, Typ: tup.At(1).Type()}}}, true
		case "TryDiv":
			d := args[0].T
			q := fc.freshConst("quo", x.Sort)
			errv := fc.freshConst("err", SV)
			st.assume(Eq(Eq(errv, Const("nil", SV)), Not(Eq(d, r.zero()))))
			st.assume(Implies(Not(Eq(d, r.zero())), Eq(r.mul(q, d), x)))
			tup := resT.(*types.Tuple)
			return Val{Tuple: []Val{{T: q, Typ: tup.At(0).Type()}, {T: errv, Typ: tup.At(1).Type()}}}, true
		}
		return Val{}, false
	case "group":
		if recv.T == nil {
			return Val{}, false
		}
		x := recv.T
		val := func(t *Term) (Val, bool) { return Val{T: t, Typ: resT}, true }
		switch name {
		case "Add", "Op":
			return val(gAdd(x, args[0].T))
		case "Sub":
			return val(gAdd(x, gNeg(args[0].T)))
		case "Neg", "OpInv":
			return val(gNeg(x))
		case "Double":
			return val(gAdd(x, x))
		case "Clone":
			return val(x)
		case "ScalarOp", "ScalarMul":
			return val(gSmul(args[0].T, x))
		case "IsZero", "IsOpIdentity":
			return boolRes(Eq(x, gZero())), true
		case "Equal":
			return boolRes(Eq(x, args[0].T)), true
		}
		return Val{}, false
	case "bigint": // arbitrary-precision integers (num.Int / num.Nat / num.NatPlus / num.Uint / numct.Nat / big.Int) as mathematical integers
		if recv.T == nil || recv.T.Sort.Kind != "Int" {
			return Val{}, false
		}
		x := recv.T
		val := func(t *Term) (Val, bool) { return Val{T: t, Typ: resT}, true }
		twopow := func(k *Term) *Term { return App("g$twopow", SInt, k) }
		switch name {
		case "Abs":
			return val(Ite(Ge(x, IntLit(0)), x, Sub(IntLit(0), x)))
		case "Nat", "Lift", "Clone", "Value", "Big", "Int":
			return val(x)
		case "IsNegative":
			return boolRes(Lt(x, IntLit(0))), true
		case "IsZero":
			return boolRes(Eq(x, IntLit(0))), true
		case "IsOne":
			return boolRes(Eq(x, IntLit(1))), true
		case "IsEven":
			return boolRes(Eq(Mod(x, IntLit(2)), IntLit(0))), true
		case "IsOdd":
			return boolRes(Eq(Mod(x, IntLit(2)), IntLit(1))), true
		case "Mod":
			// Euclidean residue in [0, m)
			return val(Mod(x, args[0].T))
		case "Add":
			return val(Add(x, args[0].T))
		case "Sub":
			return val(Sub(x, args[0].T))
		case "Mul":
			return val(Mul(x, args[0].T))
		case "Neg":
			return val(Sub(IntLit(0), x))
		case "Equal":
			return boolRes(Eq(x, args[0].T)), true
		case "Rsh":
			return val(Div(x, twopow(args[0].T)))
		case "Lsh":
			return val(Mul(x, twopow(args[0].T)))
		case "Bit":
			// bit i of |x| (math/big semantics for non-negative x)
			return val(Mod(Div(x, twopow(args[0].T)), IntLit(2)))
		case "Byte":
			if n, ok := litInt(args[0].T); ok && n.Sign() == 0 {
				return val(Mod(Ite(Ge(x, IntLit(0)), x, Sub(IntLit(0), x)), IntLit(256)))
			}
		}
		return Val{}, false
	case "bigintS": // structures of big integers: constructors from other big-integer kinds
		switch name {
		case "FromNat", "FromInt", "FromUint":
			if tup, ok := resT.(*types.Tuple); ok && tup.Len() == 2 && len(args) == 1 && args[0].T != nil && args[0].T.Sort.Kind == "Int" {
				errv := fc.freshConst("err", SV)
				pos := strings.Contains(tup.At(0).Type().String(), "NatPlus")
				if pos {
					st.assume(Eq(Eq(errv, Const("nil", SV)), Gt(args[0].T, IntLit(0))))
				} else {
					st.assume(Eq(Eq(errv, Const("nil", SV)), Ge(args[0].T, IntLit(0))))
				}
				return Val{Tuple: []Val{{T: args[0].T, Typ: tup.At(0).Type()}, {T: errv, Typ: tup.At(1).Type()}}}, true
			}
		}
		return Val{}, false
	case "groupS": // the group structure object
		val := func(t *Term) (Val, bool) { return Val{T: t, Typ: resT}, true }
		switch name {
		case "ScalarBaseOp", "ScalarBaseMul":
			return val(gSmul(args[0].T, Const("g$ggen", SV)))
		case "Generator":
			return val(Const("g$ggen", SV))
		case "OpIdentity", "Zero":
			return val(gZero())
		}
		return Val{}, false
	case "curveparams": // ShortWeierstrassCurveParams: out = f(in) with curve constants a, b, 3b (ghost constants cpA, cpB, cpB3)
		if len(args) == 2 {
			var ol *Loc
			if args[0].Loc != nil {
				ol = args[0].Loc
			} else {
				ol = fc.derefLoc(st, args[0], pos)
			}
			in := deref(args[1])
			r := ringOps{ol.Sort}
			cst := func(n string) *Term {
				if ol.Sort.Kind == "Int" {
					return Const("g$"+n, SInt)
				}
				return Const("g$"+n, SV)
			}
			var t *Term
			switch name {
			case "MulByA":
				t = r.mul(cst("cpA"), in)
			case "MulBy3B":
				t = r.mul(cst("cpB3"), in)
			case "AddA":
				t = r.add(in, cst("cpA"))
			case "AddB":
				t = r.add(in, cst("cpB"))
			case "MulByD":
				t = r.mul(cst("cpD"), in)
			}
			if t != nil {
				fc.writeLoc(st, ol, fc.nameTerm(st, "t", t))
				return Val{}, true
			}
		}
		return Val{}, false
	case "fieldS", "ringS":
		s := fc.sortOf(resT)
		r := ringOps{s}
		val := func(t *Term) (Val, bool) { return Val{T: t, Typ: resT}, true }
		switch name {
		case "Zero", "OpIdentity":
			return val(r.zero())
		case "One":
			return val(r.one())
		}
		return Val{}, false
	}
	return Val{}, false
}

// libraryCall: a few Go-coded models of library functions.
func (fc *FuncCtx) libraryCall(st *State, fn *types.Func, recv *Val, args []Val, resT types.Type, pos token.Pos) (Val, bool) {
	pp, k := funcKeyOf(fn)
	switch pp + "::" + k {
	case "bytes::Equal":
		return Val{T: fc.bytesEq(args[0].T, args[1].T), Typ: resT}, true
	case "crypto/subtle::ConstantTimeCompare":
		return Val{T: ctBool(fc.bytesEq(args[0].T, args[1].T)), Typ: resT}, true
	}
	return Val{}, false
}

// lookupFM finds a field or method by name; unexported names are looked up in the package that declares
// the (possibly embedded) type, so that contracts can name the representation of types of other packages.
func lookupFM(t types.Type, pkg *types.Package, name string) (types.Object, []int, bool) {
	obj, idx, ind := types.LookupFieldOrMethod(t, true, pkg, name)
	if obj != nil {
		return obj, idx, ind
	}
	seen := map[*types.Package]bool{}
	var try func(tt types.Type, depth int) (types.Object, []int, bool)
	try = func(tt types.Type, depth int) (types.Object, []int, bool) {
		if depth > 4 || tt == nil {
			return nil, nil, false
		}
		tt = types.Unalias(tt)
		if p, ok := tt.Underlying().(*types.Pointer); ok {
			tt = types.Unalias(p.Elem())
		}
		if n, ok := tt.(*types.Named); ok && n.Obj().Pkg() != nil && !seen[n.Obj().Pkg()] {
			seen[n.Obj().Pkg()] = true
			if o, i, d := types.LookupFieldOrMethod(t, true, n.Obj().Pkg(), name); o != nil {
				return o, i, d
			}
		}
		if st, ok := tt.Underlying().(*types.Struct); ok {
			for i := 0; i < st.NumFields(); i++ {
				if st.Field(i).Embedded() {
					if o, ix, d := try(st.Field(i).Type(), depth+1); o != nil {
						return o, ix, d
					}
				}
			}
		}
		return nil, nil, false
	}
	return try(t, 0)
}
