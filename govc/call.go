package main

import (
	"fmt"
	"go/ast"
	"go/token"
	"go/types"
	"strings"
)

func (fc *FuncCtx) staticCallee(call *ast.CallExpr) *types.Func {
	fun := ast.Unparen(call.Fun)
	switch f := fun.(type) {
	case *ast.IndexExpr:
		fun = f.X
	case *ast.IndexListExpr:
		fun = f.X
	}
	switch f := fun.(type) {
	case *ast.Ident:
		if fn, ok := fc.info.ObjectOf(f).(*types.Func); ok {
			return fn
		}
	case *ast.SelectorExpr:
		if sel := fc.info.Selections[f]; sel != nil {
			if fn, ok := sel.Obj().(*types.Func); ok {
				return fn
			}
			return nil
		}
		if fn, ok := fc.info.ObjectOf(f.Sel).(*types.Func); ok {
			return fn
		}
	}
	return nil
}

func (fc *FuncCtx) evalCall(st *State, call *ast.CallExpr) Val {
	fun := ast.Unparen(call.Fun)
	// conversion
	if tv, ok := fc.info.Types[fun]; ok && tv.IsType() {
		return fc.evalConversion(st, tv.Type, call)
	}
	// builtin
	if id, ok := fun.(*ast.Ident); ok {
		if _, isB := fc.info.ObjectOf(id).(*types.Builtin); isB {
			return fc.evalBuiltin(st, id.Name, call)
		}
	}
	resT := fc.info.TypeOf(call)
	fn := fc.staticCallee(call)
	// receiver
	var recv *Val
	var recvExpr ast.Expr
	f2 := fun
	switch f := f2.(type) {
	case *ast.IndexExpr:
		f2 = f.X
	case *ast.IndexListExpr:
		f2 = f.X
	}
	if se, ok := f2.(*ast.SelectorExpr); ok {
		if sel := fc.info.Selections[se]; sel != nil && (sel.Kind() == types.MethodVal) {
			recvExpr = se.X
			rv := fc.evalRecv(st, se.X, sel)
			recv = &rv
		}
	}
	if fn == nil {
		// call through function value
		fv := fc.evalExpr(st, fun)
		if fv.Fn != nil && fv.T == nil {
			return fc.inlineFuncLit(st, fv.Fn, call)
		}
		if fv.FnObj != nil {
			fn = fv.FnObj
			recv = fv.Recv
		} else if fv.T != nil {
			// a function value (field, parameter): modelled as a deterministic function of the value and its arguments
			fc.note("call through a function value modelled as a pure function of the function value and its arguments")
			var avs []Val
			for _, a := range call.Args {
				avs = append(avs, fc.evalExpr(st, a))
			}
			return fc.applyFnValue(st, fv, avs, resT)
		} else {
			fc.note("call through function value: result havoc'd")
			for _, a := range call.Args {
				fc.evalExpr(st, a)
			}
			return fc.havocResult(st, resT, "fv")
		}
	}
	// arguments
	var args []Val
	for _, a := range call.Args {
		args = append(args, fc.evalExpr(st, a))
	}
	if len(call.Args) == 1 && len(args) == 1 && len(args[0].Tuple) > 0 {
		args = args[0].Tuple
	}
	fc.curArgExprs = call.Args
	fc.curRecvExpr = recvExpr
	return fc.callFunc(st, fn, recv, recvExpr, args, resT, call.Pos(), call.Ellipsis.IsValid())
}

// evalRecv evaluates a method receiver expression, taking the address implicitly when needed.
func (fc *FuncCtx) evalRecv(st *State, x ast.Expr, sel *types.Selection) Val {
	xt := fc.info.TypeOf(x)
	fn := sel.Obj().(*types.Func)
	sig := fn.Type().(*types.Signature)
	wantPtr := false
	if sig.Recv() != nil {
		_, wantPtr = types.Unalias(sig.Recv().Type()).(*types.Pointer)
	}
	// embedded path: follow fields except last (method)
	idx := sel.Index()
	if len(idx) > 1 {
		base := fc.evalExpr(st, x)
		rt := xt
		cur := base
		for _, i := range idx[:len(idx)-1] {
			rtu := types.Unalias(rt)
			if p, ok := rtu.Underlying().(*types.Pointer); ok {
				rtu = p.Elem()
			}
			stt, ok := types.Unalias(rtu).Underlying().(*types.Struct)
			if !ok {
				break
			}
			f := stt.Field(i)
			l := &Loc{Kind: "field", Base: cur.T, Key: fc.fieldKey(f), Sort: fc.sortOf(f.Origin().Type()), Typ: f.Type()}
			cur = Val{T: fc.readLoc(st, l), Typ: f.Type()}
			rt = f.Type()
		}
		return cur
	}
	if wantPtr && pointee(xt) == nil && (!isStruct(xt) || (fc.bindOf(xt) != "" && strings.HasSuffix(fc.bindOf(types.NewPointer(xt)), "ptr"))) && fc.isAddressable(x) {
		// implicit &x for non-struct addressable receiver
		l := fc.evalLoc(st, x)
		return Val{Loc: l, Typ: types.NewPointer(xt)}
	}
	return fc.evalExpr(st, x)
}

func (fc *FuncCtx) havocResult(st *State, resT types.Type, hint string) Val {
	if resT == nil {
		return Val{}
	}
	if tup, ok := resT.(*types.Tuple); ok {
		if tup.Len() == 0 {
			return Val{}
		}
		var vs []Val
		for i := 0; i < tup.Len(); i++ {
			vs = append(vs, fc.havocResult(st, tup.At(i).Type(), hint))
		}
		return Val{Tuple: vs}
	}
	t := fc.freshConst(hint, fc.sortOf(resT))
	st.assume(fc.typeFacts(t, resT))
	return Val{T: t, Typ: resT}
}

func (fc *FuncCtx) evalConversion(st *State, to types.Type, call *ast.CallExpr) Val {
	v := fc.evalExpr(st, call.Args[0])
	from := fc.info.TypeOf(call.Args[0])
	if v.Loc != nil {
		return Val{Loc: v.Loc, Typ: to}
	}
	if v.T == nil {
		v.Typ = to
		return v
	}
	ts := fc.sortOf(to)
	if ts.Kind == "Int" && v.T.Sort.Kind == "Int" && fc.bindOf(to) == "" {
		w, signed := intWidth(to)
		fw, fsigned := intWidth(from)
		if w != 0 && !signed && (w < fw || fw == 0 || (fsigned && w < 64)) && w < 64 {
			return Val{T: fc.wrapInt(v.T, to), Typ: to}
		}
		if w == 64 || signed {
			if fw > w || fsigned != signed {
				fc.note("integer conversion between 64-bit/signed types treated as identity")
			}
		}
		return Val{T: v.T, Typ: to}
	}
	if ts.Eq(v.T.Sort) {
		return Val{T: v.T, Typ: to}
	}
	// []byte(string), string([]byte) etc.
	if ts.Kind == "Slice" && v.T.Sort.Kind == "V" {
		r := App("str$bytes", ts, v.T)
		st.assume(Eq(SliceLen(r), App("str$len", SInt, v.T)))
		st.assume(Ge(SliceLen(r), IntLit(0)))
		return Val{T: r, Typ: to}
	}
	if ts.Kind == "V" && v.T.Sort.Kind == "Slice" {
		return Val{T: App("str$of"+sortTag(v.T.Sort), SV, v.T), Typ: to}
	}
	return Val{T: fc.coerce(st, v, to), Typ: to}
}

func (fc *FuncCtx) evalBuiltin(st *State, name string, call *ast.CallExpr) Val {
	resT := fc.info.TypeOf(call)
	switch name {
	case "len", "cap":
		v := fc.evalExpr(st, call.Args[0])
		at := fc.info.TypeOf(call.Args[0])
		if p := pointee(at); p != nil && v.T != nil && v.T.Sort.Kind != "Slice" {
			l := fc.derefLoc(st, v, call.Pos())
			v = Val{T: fc.readLoc(st, l), Typ: p}
		}
		switch v.T.Sort.Kind {
		case "Slice":
			if name == "cap" {
				c := App("cap$"+sortTag(v.T.Sort), SInt, v.T)
				st.assume(Ge(c, SliceLen(v.T)))
				return Val{T: c, Typ: resT}
			}
			st.assume(Ge(SliceLen(v.T), IntLit(0)))
			return Val{T: SliceLen(v.T), Typ: resT}
		case "Map":
			c := App("mapcard$"+sortTag(v.T.Sort), SInt, v.T)
			st.assume(Ge(c, IntLit(0)))
			return Val{T: c, Typ: resT}
		case "V":
			c := App("str$len", SInt, v.T)
			st.assume(Ge(c, IntLit(0)))
			return Val{T: c, Typ: resT}
		}
	case "make":
		t := fc.info.TypeOf(call.Args[0])
		s := fc.sortOf(t)
		switch s.Kind {
		case "Slice":
			n := fc.evalExpr(st, call.Args[1]).T
			if fc.contract != nil && fc.contract.NoPanic && fc.noOblig == 0 {
				fc.emit(st, "bounds", "make length non-negative", Ge(n, IntLit(0)), call.Pos(), "")
			}
			st.assume(Ge(n, IntLit(0)))
			var elemT types.Type
			if sl, ok := types.Unalias(t).Underlying().(*types.Slice); ok {
				elemT = sl.Elem()
			}
			z := fc.zeroVal(elemT, "mk")
			var arr *Term
			if z.Op == "lit" || z.Op == "nil" {
				arr = &Term{Op: "const-array", Args: []*Term{z}, Sort: ArrayOf(SInt, s.Elem)}
			} else {
				arr = fc.freshConst("mkarr", ArrayOf(SInt, s.Elem))
			}
			return Val{T: fc.nameTerm(st, "mk", MkSlice(arr, n)), Typ: t}
		case "Map":
			return Val{T: fc.nameTerm(st, "mkmap", fc.emptyMap(s, "mk")), Typ: t}
		}
		fc.note("make of channel/opaque type")
		return Val{T: fc.freshConst("made", s), Typ: t}
	case "new":
		t := fc.info.TypeOf(call.Args[0])
		if isStruct(t) {
			ref := fc.newRef(st, "new")
			return Val{T: ref, Typ: resT}
		}
		tmp := types.NewVar(token.NoPos, nil, "newcell", t)
		st.env[tmp] = Val{T: fc.zeroVal(t, "new"), Typ: t}
		return Val{Loc: &Loc{Kind: "local", Obj: tmp, Sort: fc.sortOf(t), Typ: t}, Typ: resT}
	case "append":
		if id, ok := ast.Unparen(call.Args[0]).(*ast.Ident); ok && len(call.Args) > 1 {
			if src, shared := fc.sliceCopies[fc.info.ObjectOf(id)]; shared {
				// x := y (inside a loop, y from outside) ; append(x, ...): when y has spare capacity every iteration
				// writes into the same backing array. The value-semantic slice model cannot express that, so the
				// function leaves the modelled subset instead of being verified against a wrong model.
				fc.fail(call.Pos(), "append to %s, a slice header copied in a loop from %s declared outside the loop: the appended data may alias across iterations (shared backing array; not expressible in the value-semantic slice model)", id.Name, src.Name())
			}
			// append(y, ...) inside a loop with y declared outside it, the result going anywhere but back into y: when y has
			// spare capacity every iteration writes into y's backing array, so the results of different iterations alias.
			if obj, isVar := fc.info.ObjectOf(id).(*types.Var); isVar && len(fc.loopDepthPos) > 0 && !(obj.Pkg() != nil && obj.Parent() == obj.Pkg().Scope()) {
				if obj.Pos() < fc.loopDepthPos[len(fc.loopDepthPos)-1] && fc.appendTarget != types.Object(obj) {
					fc.fail(call.Pos(), "append to %s (declared outside the loop) whose result is not assigned back to %s: the results of different iterations may share %s's backing array (not expressible in the value-semantic slice model)", id.Name, id.Name, id.Name)
				}
			}
		}
		s := fc.evalExpr(st, call.Args[0])
		cur := s.T
		if call.Ellipsis.IsValid() && len(call.Args) == 2 {
			o := fc.evalExpr(st, call.Args[1])
			ot := o.T
			if ot.Sort.Kind == "V" { // append([]byte, string...)
				ot = App("str$bytes", cur.Sort, o.T)
				st.assume(Eq(SliceLen(ot), App("str$len", SInt, o.T)))
				st.assume(Ge(SliceLen(ot), IntLit(0)))
			}
			r := fc.freshConst("app", cur.Sort)
			j := BVar("j!a", SInt)
			st.assume(Eq(SliceLen(r), Add(SliceLen(cur), SliceLen(ot))))
			st.assume(Forall([]*Term{j}, Implies(And(Le(IntLit(0), j), Lt(j, SliceLen(cur))), Eq(SliceAt(r, j), SliceAt(cur, j))), []*Term{SliceAt(r, j)}))
			st.assume(Forall([]*Term{j}, Implies(And(Le(SliceLen(cur), j), Lt(j, SliceLen(r))), Eq(SliceAt(r, j), SliceAt(ot, Sub(j, SliceLen(cur))))), []*Term{SliceAt(r, j)}))
			return Val{T: r, Typ: resT}
		}
		var elemT types.Type
		if sl, ok := types.Unalias(resT).Underlying().(*types.Slice); ok {
			elemT = sl.Elem()
		}
		for _, a := range call.Args[1:] {
			v := fc.evalExprTo(st, a, elemT)
			cur = MkSlice(Store(SliceArr(cur), SliceLen(cur), v), Add(SliceLen(cur), IntLit(1)))
			cur = fc.nameTerm(st, "app", cur)
		}
		return Val{T: cur, Typ: resT}
	case "copy":
		dstE := call.Args[0]
		src := fc.evalExpr(st, call.Args[1])
		dst := fc.evalExpr(st, dstE)
		srcT := src.T
		if srcT.Sort.Kind == "V" {
			srcT = App("str$bytes", dst.T.Sort, src.T)
			st.assume(Eq(SliceLen(srcT), App("str$len", SInt, src.T)))
		}
		n := fc.freshConst("ncopy", SInt)
		st.assume(Eq(n, Ite(Le(SliceLen(dst.T), SliceLen(srcT)), SliceLen(dst.T), SliceLen(srcT))))
		// destination: if it is a slice expression of an addressable slice, write back
		fc.copyInto(st, dstE, dst.T, srcT, n)
		return Val{T: n, Typ: resT}
	case "min", "max":
		v := fc.evalExpr(st, call.Args[0]).T
		for _, a := range call.Args[1:] {
			w := fc.evalExpr(st, a).T
			if name == "min" {
				v = Ite(Le(v, w), v, w)
			} else {
				v = Ite(Ge(v, w), v, w)
			}
		}
		return Val{T: v, Typ: resT}
	case "panic":
		fc.reachPanic(st, call.Pos(), "explicit panic")
		st.assume(TFalse)
		return Val{}
	case "delete":
		l := fc.evalLoc(st, call.Args[0])
		k := fc.evalExpr(st, call.Args[1])
		m := fc.readLoc(st, l)
		fc.writeLoc(st, l, fc.nameTerm(st, "del", MkMap(MapArr(m), Store(MapDom(m), k.T, TFalse))))
		return Val{}
	case "clear":
		fc.abstract("clear() not modelled", call.Pos())
		return Val{}
	case "close":
		fc.evalExpr(st, call.Args[0])
		fc.note("channel operations have no effect on the modelled state")
		return Val{}
	case "print", "println":
		return Val{}
	case "recover":
		return Val{T: Const("nil", SV), Typ: resT}
	}
	fc.fail(call.Pos(), "unsupported builtin %s", name)
	return Val{}
}

// copyInto models copy(dst, src) where dst is expression dstE (possibly x[a:b]).
func (fc *FuncCtx) copyInto(st *State, dstE ast.Expr, dst, src, n *Term) {
	dstE = ast.Unparen(dstE)
	off := IntLit(0)
	target := dstE
	if se, ok := dstE.(*ast.SliceExpr); ok {
		target = se.X
		if se.Low != nil {
			off = fc.evalExpr(st, se.Low).T
		}
	}
	if !fc.isAddressable(target) {
		fc.note("copy into non-addressable destination ignored")
		return
	}
	tt := fc.info.TypeOf(target)
	if p := pointee(tt); p != nil {
		fc.note("copy into pointer-to-array destination ignored")
		return
	}
	l := fc.evalLoc(st, target)
	cur := fc.readLoc(st, l)
	r := fc.freshConst("cpy", cur.Sort)
	j := BVar("j!c", SInt)
	st.assume(Eq(SliceLen(r), SliceLen(cur)))
	in := And(Le(off, j), Lt(j, Add(off, n)))
	st.assume(Forall([]*Term{j}, Eq(SliceAt(r, j), Ite(in, SliceAt(src, Sub(j, off)), SliceAt(cur, j))), []*Term{SliceAt(r, j)}))
	fc.writeLoc(st, l, r)
}

type inlineRet struct {
	st   *State
	vals []Val
}

type inlineFrame struct {
	sig  *types.Signature
	rets []inlineRet
}

// inlineFuncLit executes a call of a function literal (bound to a local variable or written in place) on the
// caller's state: parameters are bound to the argument values, the body is executed with the enclosing function's
// loop contracts, every return records its state, and the states are merged. Literals with named results, defer or
// nested returns through closures are not executed in place (result havoc'd, as before).
func (fc *FuncCtx) inlineFuncLit(st *State, fl *ast.FuncLit, call *ast.CallExpr) Val {
	sig, _ := fc.info.TypeOf(fl).(*types.Signature)
	simple := sig != nil && len(fc.inlineStack) < 2 && sig.Results().Len() <= 1 && !sig.Variadic()
	if simple && fl.Type.Results != nil {
		for _, f := range fl.Type.Results.List {
			if len(f.Names) > 0 {
				simple = false
			}
		}
	}
	if simple {
		ast.Inspect(fl.Body, func(n ast.Node) bool {
			switch n.(type) {
			case *ast.DeferStmt, *ast.GoStmt, *ast.FuncLit:
				simple = false
			}
			return simple
		})
	}
	if !simple {
		fc.note("call of function literal: result havoc'd")
		for _, a := range call.Args {
			fc.evalExpr(st, a)
		}
		fc.havocAssigned(st, fl.Body)
		return fc.havocResult(st, fc.info.TypeOf(call), "flit")
	}
	// bind parameters
	var args []Val
	for _, a := range call.Args {
		args = append(args, fc.evalExpr(st, a))
	}
	i := 0
	for _, f := range fl.Type.Params.List {
		for _, n := range f.Names {
			if obj, ok := fc.info.Defs[n].(*types.Var); ok && i < len(args) {
				v := args[i]
				if v.T != nil {
					v = Val{T: fc.coerce(st, v, obj.Type()), Typ: obj.Type()}
				}
				st.env[obj] = v
			}
			i++
		}
	}
	fr := &inlineFrame{sig: sig}
	fc.inlineStack = append(fc.inlineStack, fr)
	body := st.clone()
	f := fc.execBlock(body, fl.Body.List)
	fc.inlineStack = fc.inlineStack[:len(fc.inlineStack)-1]
	if f.next != nil && sig.Results().Len() == 0 {
		fr.rets = append(fr.rets, inlineRet{f.next, nil})
	}
	if len(fr.rets) == 0 {
		// no normal exit (every path panics): nothing continues
		st.assume(TFalse)
		return fc.havocResult(st, fc.info.TypeOf(call), "flit")
	}
	var rv *types.Var
	if sig.Results().Len() == 1 {
		rv = types.NewVar(fl.Pos(), fc.pkg.Types, "flit$result", sig.Results().At(0).Type())
	}
	var states []*State
	for _, r := range fr.rets {
		if rv != nil && len(r.vals) == 1 {
			v := r.vals[0]
			if v.T != nil {
				v = Val{T: fc.coerce(r.st, v, rv.Type()), Typ: rv.Type()}
			}
			r.st.env[rv] = v
		}
		states = append(states, r.st)
	}
	out := fc.merge(states)
	var res Val
	if rv != nil {
		res = out.env[rv]
		delete(out.env, rv)
	}
	*st = *out
	return res
}

// ---------------------------------------------------------------- generic call

func hasReaderParam(fn *types.Func) bool {
	sig := fn.Type().(*types.Signature)
	isReader := func(t types.Type) bool {
		s := t.String()
		return s == "io.Reader" || strings.HasSuffix(s, "/io.Reader") || strings.HasSuffix(s, ".CSPRNG")
	}
	for i := 0; i < sig.Params().Len(); i++ {
		if isReader(sig.Params().At(i).Type()) {
			return true
		}
	}
	if r := sig.Recv(); r != nil && isReader(r.Type()) {
		return true
	}
	return false
}

// samplerCall models an uncontracted function that takes an io.Reader: its results are a deterministic function of the
// other arguments and of the reader's state s0 = shk(reader) (so they are tied to THAT reader at THAT position: the
// ghost predicate drawn(result, s0) records it), and the reader moves to a later state of the same stream.
func (fc *FuncCtx) samplerCall(st *State, fn *types.Func, name string, recv *Val, args []Val, ts []*Term, resT types.Type) (Val, bool) {
	if _, ok := fc.eng.contracts.GhostFields["shk"]; !ok || fc.inSpec {
		return Val{}, false
	}
	if _, ok := fc.eng.contracts.Ghosts["drawn"]; !ok {
		return Val{}, false
	}
	sig := fn.Type().(*types.Signature)
	isReader := func(t types.Type) bool {
		x := t.String()
		return x == "io.Reader" || strings.HasSuffix(x, "/io.Reader") || strings.HasSuffix(x, ".CSPRNG")
	}
	ri := -1
	for i := 0; i < sig.Params().Len() && i < len(args); i++ {
		if isReader(sig.Params().At(i).Type()) {
			ri = i
			break
		}
	}
	if ri < 0 || args[ri].T == nil || args[ri].T.Sort.Kind != "V" {
		return Val{}, false
	}
	rdr := args[ri].T
	arr := fc.heapArr(st, "GF$shk", SV)
	s0 := Select(arr, rdr)
	// argument list with the reader replaced by its state
	var ts2 []*Term
	off := 0
	if recv != nil && recv.T != nil {
		off = 1
	}
	replaced := false
	for i, t := range ts {
		if !replaced && i >= off && t == rdr {
			ts2 = append(ts2, s0)
			replaced = true
			continue
		}
		ts2 = append(ts2, t)
	}
	if !replaced {
		ts2 = append(ts2, s0)
	}
	var sg []string
	for _, a := range ts2 {
		sg = append(sg, sortTag(a.Sort))
	}
	mk := func(t types.Type, i int) Val {
		so := fc.sortOf(t)
		r := fc.nameTerm(st, "smp", App(fmt.Sprintf("smp$%s#%d$%s>%s", name, i, strings.Join(sg, "."), sortTag(so)), so, ts2...))
		st.assume(fc.typeFacts(r, t))
		fc.assumeTypeInv(st, r, t)
		if t.String() != "error" {
			st.assume(App("g$drawn", SBool, fc.coerceTerm(r, SV), s0))
		} else {
			fc.externalErrNoBlame(st, fn, r, t)
		}
		return Val{T: r, Typ: t}
	}
	s1 := fc.nameTerm(st, "rdst", App("smpnext$"+name+"$"+strings.Join(sg, "."), SV, ts2...))
	st.heap["GF$shk"] = fc.nameTerm(st, "GF$shk", Store(arr, rdr, s1))
	st.assume(Eq(App("g$streamOf", SV, s1), App("g$streamOf", SV, s0)))
	st.assume(Ge(App("g$rpos", SInt, s1), App("g$rpos", SInt, s0)))
	fc.note("sampler (takes io.Reader) modelled as a deterministic function of its arguments and the reader state, advancing the reader: " + name)
	if resT == nil {
		return Val{}, true
	}
	if tup, ok := resT.(*types.Tuple); ok {
		if tup.Len() == 0 {
			return Val{}, true
		}
		var vs []Val
		for i := 0; i < tup.Len(); i++ {
			vs = append(vs, mk(tup.At(i).Type(), i))
		}
		return Val{Tuple: vs}, true
	}
	return mk(resT, 0), true
}

func (fc *FuncCtx) ufName(fn *types.Func, recv *Val) string {
	pp, k := funcKeyOf(fn)
	sig := fn.Type().(*types.Signature)
	if sig.Recv() != nil {
		// methods are named by method name only (a function of the receiver value), so that a call dispatched
		// through an interface or a type parameter and a call on the concrete type denote the same term
		return "m$" + fn.Name()
	}
	short := pp
	if i := strings.LastIndex(pp, "/"); i >= 0 {
		short = pp[i+1:]
	}
	return "f$" + short + "." + strings.NewReplacer("(", "", ")", "", "*", "").Replace(k)
}

func (fc *FuncCtx) callFunc(st *State, fn *types.Func, recv *Val, recvExpr ast.Expr, args []Val, resT types.Type, pos token.Pos, ellipsis bool) Val {
	// 1. theory model
	if recv != nil {
		if b := fc.bindOf(recv.Typ); b != "" {
			if v, ok := fc.theoryCall(st, b, fn, recv, args, resT, pos); ok {
				return v
			}
		}
	}
	// 2. library models
	if v, ok := fc.libraryCall(st, fn, recv, args, resT, pos); ok {
		return v
	}
	// 3. contract
	if c := fc.eng.contractFor(fn); c != nil && fc.contractApplies(c, recv) {
		return fc.applyContract(st, fn, c, recv, args, resT, pos, ellipsis)
	}
	// 4. default: pure uninterpreted function of the arguments
	return fc.defaultCall(st, fn, recv, args, resT, pos)
}

func (fc *FuncCtx) argTerms(st *State, recv *Val, args []Val) []*Term {
	var ts []*Term
	add := func(v Val) {
		if v.T != nil {
			ts = append(ts, v.T)
		} else if v.Loc != nil {
			// pass current content of the location
			ts = append(ts, fc.readLoc(st, v.Loc))
		} else if len(v.Tuple) > 0 {
			for _, x := range v.Tuple {
				if x.T != nil {
					ts = append(ts, x.T)
				}
			}
		}
	}
	if recv != nil {
		add(*recv)
	}
	for _, a := range args {
		add(a)
	}
	return ts
}

func (fc *FuncCtx) defaultCall(st *State, fn *types.Func, recv *Val, args []Val, resT types.Type, pos token.Pos) Val {
	name := fc.ufName(fn, recv)
	// pointer arguments to non-struct locations may be written by the callee: havoc them
	havocLoc := func(v Val) {
		if v.Loc != nil {
			nv := fc.freshConst("out", v.Loc.Sort)
			fc.writeLoc(st, v.Loc, nv)
			// the new contents still have the location's type (arrays keep their length, integers their range)
			st.assume(fc.typeFacts(nv, v.Loc.Typ))
		}
	}
	fresh := hasReaderParam(fn)
	ts := fc.argTerms(st, recv, args)
	for _, a := range args {
		havocLoc(a)
	}
	if recv != nil {
		havocLoc(*recv)
	}
	if fresh {
		if v, ok := fc.samplerCall(st, fn, name, recv, args, ts, resT); ok {
			return v
		}
		fc.note("sampler (takes io.Reader): result is a fresh unconstrained value: " + name)
		return fc.havocResult(st, resT, "rnd")
	}
	fc.note("uncontracted callee modelled as pure function of its arguments: " + name)
	mkRes := func(t types.Type, i int) Val {
		s := fc.sortOf(t)
		nm := name
		if i >= 0 {
			nm = fmt.Sprintf("%s#%d", name, i)
		}
		// arity/sort-specific name to avoid clashes
		var sig []string
		for _, a := range ts {
			sig = append(sig, sortTag(a.Sort))
		}
		nm = nm + "$" + strings.Join(sig, ".") + ">" + sortTag(s)
		r := App(nm, s, ts...)
		st.assume(fc.typeFacts(r, t))
		fc.assumeTypeInv(st, r, t)
		fc.externalErrNoBlame(st, fn, r, t)
		return Val{T: r, Typ: t}
	}
	if resT == nil {
		return Val{}
	}
	if tup, ok := resT.(*types.Tuple); ok {
		if tup.Len() == 0 {
			return Val{}
		}
		var vs []Val
		for i := 0; i < tup.Len(); i++ {
			vs = append(vs, mkRes(tup.At(i).Type(), i))
		}
		return Val{Tuple: vs}
	}
	return mkRes(resT, -1)
}

// externalErrNoBlame: an error produced by a function outside the module (standard library, third-party
// dependencies other than errs-go) carries no identifiable-abort tag: tags are attached only by errs-go's WithTag,
// which only module code calls. Functions that may hand back an error or run a callback supplied by the caller
// (parameters of type error, func, or slices of them) are excluded.
func (fc *FuncCtx) externalErrNoBlame(st *State, fn *types.Func, r *Term, t types.Type) {
	if fn == nil || fn.Pkg() == nil || t == nil || r == nil || r.Sort.Kind != "V" {
		return
	}
	pp := fn.Pkg().Path()
	if strings.HasPrefix(pp, fc.eng.modPath) || strings.Contains(pp, "errs-go") || strings.Contains(pp, "errgroup") {
		return
	}
	if t.String() != "error" {
		return
	}
	sig := fn.Type().(*types.Signature)
	carries := func(pt types.Type) bool {
		for d := 0; d < 3; d++ {
			switch x := types.Unalias(pt).Underlying().(type) {
			case *types.Signature:
				return true
			case *types.Slice:
				pt = x.Elem()
				continue
			case *types.Interface:
				return pt.String() == "error"
			}
			break
		}
		return false
	}
	for i := 0; i < sig.Params().Len(); i++ {
		if carries(sig.Params().At(i).Type()) {
			return
		}
	}
	x := BVar("x!eb", SV)
	st.assume(Forall([]*Term{x}, Not(App("culprit", SBool, r, x)), []*Term{App("culprit", SBool, r, x)}))
	fc.note("errors returned by functions outside the module carry no blame tag (tags are attached only through errs-go)")
}

// ---------------------------------------------------------------- contracts at call sites

func (fc *FuncCtx) applyContract(st *State, fn *types.Func, c *FuncContract, recv *Val, args []Val, resT types.Type, pos token.Pos, ellipsis bool) Val {
	sig := fn.Origin().Type().(*types.Signature)
	names := map[string]Val{}
	argExprs, recvExprC := fc.curArgExprs, fc.curRecvExpr
	type writeBack struct {
		loc  *Loc
		addr *Term
		key  string
	}
	var wbs []writeBack
	locAddr := map[string]*Term{}
	bindParam := func(name string, pt types.Type, v Val) {
		if v.Loc != nil {
			// pointer to non-struct location: materialise an address in mem
			id := v.Loc.id()
			addr, ok := locAddr[id]
			if !ok {
				// the address of a local/field cell is a location of its own: distinct from nil, from every
				// existing object and from the addresses of other cells
				addr = fc.newRef(st, "addr")
				locAddr[id] = addr
				key := fc.memKey(v.Loc.Sort)
				arr := fc.heapArr(st, key, v.Loc.Sort)
				st.heap[key] = fc.nameTerm(st, key, Store(arr, addr, fc.readLoc(st, v.Loc)))
				wbs = append(wbs, writeBack{v.Loc, addr, key})
			}
			names[name] = Val{T: addr, Typ: pt}
			return
		}
		if v.T != nil {
			if hasTypeParam(pt, 0) && v.Typ != nil {
				// generic parameter: the argument keeps its own (instantiated) type and sort
				names[name] = Val{T: v.T, Typ: v.Typ}
				return
			}
			names[name] = Val{T: fc.coerce(st, v, pt), Typ: pt}
			return
		}
		names[name] = v
	}
	if r := sig.Recv(); r != nil && recv != nil {
		rn := r.Name()
		if rn == "" || rn == "_" {
			rn = "recv"
		}
		bindParam(rn, r.Type(), *recv)
		if rn != "recv" {
			names["recv"] = names[rn]
		}
	}
	np := sig.Params().Len()
	for i := 0; i < np; i++ {
		p := sig.Params().At(i)
		if sig.Variadic() && i == np-1 && !ellipsis {
			// pack the remaining args into a slice
			st2 := p.Type().(*types.Slice)
			es := fc.sortOf(st2.Elem())
			// canonical base (elements beyond the length are not observable), so that equal argument lists are equal terms
			var cur *Term = &Term{Op: "const-array", Args: []*Term{fc.zeroElem(es)}, Sort: ArrayOf(SInt, es)}
			cnt := 0
			for _, a := range args[i:] {
				cur = Store(cur, IntLit(int64(cnt)), fc.coerce(st, a, st2.Elem()))
				cnt++
			}
			names[p.Name()] = Val{T: fc.nameTerm(st, "va", MkSlice(cur, IntLit(int64(cnt)))), Typ: p.Type()}
			break
		}
		if i < len(args) && p.Name() != "" && p.Name() != "_" {
			bindParam(p.Name(), p.Type(), args[i])
		}
		// positional name for unnamed parameters (interface methods): arg0, arg1, ...
		if i < len(args) {
			pn := fmt.Sprintf("arg%d", i)
			if p.Name() != "" && p.Name() != "_" {
				names[pn] = names[p.Name()]
			} else {
				bindParam(pn, p.Type(), args[i])
			}
		}
	}
	cc := &calleeCtx{fn: fn, names: names, pkg: fn.Pkg()}
	sc := &specCtx{names: names, old: nil, pkg: fn.Pkg(), callee: cc, binds: c.Binds}
	// the callee contract's let-bindings, evaluated in the pre-state
	for _, l := range c.Lets {
		le, err := parseSpecExpr(l[1])
		if err != nil {
			panic(engineError{err.Error()})
		}
		fc.noOblig++
		func() {
			// a let that names something only visible inside the callee's package source (an unexported constant of a
			// package known here through export data only) is skipped; clauses using it are then skipped as well
			defer func() {
				if r := recover(); r != nil {
					if ee, ok := r.(engineError); ok && strings.Contains(ee.msg, "unknown name") {
						fc.note("callee contract clause not usable at this call site (names an unexported identifier of a package loaded from export data): " + fn.Name())
						return
					}
					panic(r)
				}
			}()
			names[l[0]] = fc.evalSpec(st, le, sc)
		}()
		fc.noOblig--
	}
	// preconditions
	specPre := TTrue
	for _, rq := range c.Requires {
		if rq.Free || rq.Unproved {
			continue
		}
		if fc.inSpec {
			// a pure function named inside a specification: its postcondition is only known under its precondition
			fc.noOblig++
			specPre = And(specPre, fc.evalSpecBool(st, rq.Expr, sc))
			fc.noOblig--
			continue
		}
		g := fc.evalSpecBool(st, rq.Expr, sc)
		_, k := funcKeyOf(fn)
		if fc.contract != nil && (fc.contract.Opts["trustpre"] == "on" || trustListed(fc.contract.Opts["trustpre"], fn.Name())) {
			// this function's contract does not claim panic freedom: callee preconditions are assumed, not proved
			fc.note("callee precondition assumed (opt trustpre): " + k + ": " + rq.Text)
		} else {
			fc.emit(st, "pre@"+k, "precondition of callee", g, pos, rq.Text)
		}
		st.assume(g)
	}
	old := st.clone()
	sc.old = old
	// frame
	as := &assignedSet{objs: map[types.Object]bool{}, fields: map[string]*Sort{}}
	for _, m := range c.Modifies {
		fc.modifiesKeys(fn, m, as)
	}
	// results (created first so that modifies clauses may name locations of the result, e.g. fields of a
	// freshly allocated object)
	var results []Val
	res := sig.Results()
	for i := 0; i < res.Len(); i++ {
		rv := res.At(i)
		var rt types.Type = rv.Type()
		if tup, ok := resT.(*types.Tuple); ok && i < tup.Len() {
			rt = tup.At(i).Type()
		} else if res.Len() == 1 && resT != nil {
			rt = resT
		}
		var t *Term
		s := fc.sortOf(rt)
		if c.Pure {
			ats := fc.argTerms(st, recv, args)
			nm := fc.ufName(fn, recv)
			if res.Len() > 1 {
				nm = fmt.Sprintf("%s#%d", nm, i)
			}
			var sg []string
			for _, a := range ats {
				sg = append(sg, sortTag(a.Sort))
			}
			t = App(nm+"$"+strings.Join(sg, ".")+">"+sortTag(s), s, ats...)
		} else if i == 0 && c.Opts["fresh"] == "result" && s.Kind == "V" && !fc.inSpec {
			// the contract declares the (first) result a newly allocated object: distinct from nil and from
			// every object that existed before the call
			t = fc.newRef(st, "r_"+fn.Name())
		} else {
			t = fc.freshConst("r_"+fn.Name(), s)
		}
		st.assume(fc.typeFacts(t, rt))
		fc.assumeTypeInv(st, t, rt)
		if c.Assumed {
			fc.externalErrNoBlame(st, fn, t, rt)
		}
		v := Val{T: t, Typ: rt}
		results = append(results, v)
		nm := rv.Name()
		if nm == "" || nm == "_" || !token.IsIdentifier(nm) {
			// export data gives unnamed results synthetic names (#rv1, ~r0, ...)
			nm = defaultResultName(res, i)
		}
		names[nm] = v
		if i == 0 {
			names["result"] = v
		}
	}
	// precise havoc for "x.f" items: only that location; for *p: that cell
	fc.havocModifies(st, c, sc, as)
	for _, en := range c.Ensures {
		if en.Unproved {
			continue
		}
		fc.noOblig++
		g, internal := fc.evalCalleeClause(st, en, sc)
		fc.noOblig--
		if internal {
			// the clause talks about the callee's own locals or ghost variables: it is proved on the callee's body
			// and carries no information for callers
			continue
		}
		if fc.inSpec {
			g = Implies(specPre, g)
		}
		st.assume(g)
	}
	// write back pointer cells
	for _, wb := range wbs {
		arr := fc.heapArr(st, wb.key, wb.loc.Sort)
		fc.writeLoc(st, wb.loc, fc.nameTerm(st, "wb", Select(arr, wb.addr)))
	}
	// write back slice/map parameters the callee modifies in place
	for _, pn := range sc.modParams {
		var ex ast.Expr
		if r := sig.Recv(); r != nil && (r.Name() == pn || pn == "recv") {
			ex = recvExprC
		}
		for i := 0; i < np; i++ {
			if sig.Params().At(i).Name() == pn && i < len(argExprs) {
				ex = argExprs[i]
			}
		}
		nv := names[pn]
		if ex == nil || fc.inSpec {
			continue
		}
		ex = ast.Unparen(ex)
		if fc.isAddressable(ex) && pointee(fc.info.TypeOf(ex)) == nil {
			l := fc.evalLoc(st, ex)
			if l.Sort.Eq(nv.T.Sort) {
				fc.writeLoc(st, l, nv.T)
				continue
			}
		}
		if se, ok := ex.(*ast.SliceExpr); ok && fc.isAddressable(se.X) && pointee(fc.info.TypeOf(se.X)) == nil {
			// x[lo:hi] modified in place: the base keeps its length, the window takes the new contents
			l := fc.evalLoc(st, se.X)
			cur := fc.readLoc(st, l)
			lo := IntLit(0)
			if se.Low != nil {
				fc.noOblig++
				lo = fc.evalExpr(st, se.Low).T
				fc.noOblig--
			}
			r := fc.freshConst("wb", cur.Sort)
			j := BVar("j!w", SInt)
			st.assume(Eq(SliceLen(r), SliceLen(cur)))
			in := And(Le(lo, j), Lt(j, Add(lo, SliceLen(nv.T))))
			st.assume(Forall([]*Term{j}, Eq(SliceAt(r, j), Ite(in, SliceAt(nv.T, Sub(j, lo)), SliceAt(cur, j))), []*Term{SliceAt(r, j)}))
			fc.writeLoc(st, l, r)
			continue
		}
		fc.note("callee modifies a slice argument that is not an addressable variable: effect on aliases not modelled")
	}
	if c.Assumed {
		_, k := funcKeyOf(fn)
		fc.note("assumed (trusted) contract: " + k)
	}
	switch len(results) {
	case 0:
		return Val{}
	case 1:
		return results[0]
	}
	return Val{Tuple: results}
}

// evalCalleeClause evaluates a postcondition of a callee at a call site. A clause that names something only the
// callee's body knows (a local variable, a ghost variable) is reported as internal.
func (fc *FuncCtx) evalCalleeClause(st *State, en *Clause, sc *specCtx) (g *Term, internal bool) {
	savedPC := st.pc
	defer func() {
		if r := recover(); r != nil {
			if ee, ok := r.(engineError); ok && strings.Contains(ee.msg, "unknown name") {
				st.pc = savedPC
				g, internal = nil, true
				return
			}
			panic(r)
		}
	}()
	return fc.evalSpecBool(st, en.Expr, sc), false
}

func defaultResultName(res *types.Tuple, i int) string {
	rt := res.At(i).Type()
	if rt.String() == "error" && i == res.Len()-1 {
		return "err"
	}
	if i == 0 {
		return "result"
	}
	return fmt.Sprintf("result%d", i)
}

// havocModifies: each modifies item havocs exactly one location (x.f, *p, x.f[k]) or a whole field ("all x.f").
func (fc *FuncCtx) havocModifies(st *State, c *FuncContract, sc *specCtx, as *assignedSet) {
	for _, item := range c.Modifies {
		whole := false
		if strings.HasPrefix(item, "all ") {
			whole = true
			item = strings.TrimSpace(strings.TrimPrefix(item, "all "))
		}
		e, err := parseSpecExpr(item)
		if err != nil {
			panic(engineError{"bad modifies item " + item})
		}
		// a bare slice/map parameter: the callee writes through the caller's slice; new contents, same length
		if e.Kind == "ident" && sc.callee != nil {
			if v, ok := sc.names[e.Name]; ok && v.T != nil && (v.T.Sort.Kind == "Slice" || v.T.Sort.Kind == "Map") {
				nv := fc.freshConst("mod_"+e.Name, v.T.Sort)
				if v.T.Sort.Kind == "Slice" {
					st.assume(Eq(SliceLen(nv), SliceLen(v.T)))
				}
				if sc.oldNames == nil {
					sc.oldNames = map[string]Val{}
				}
				sc.oldNames[e.Name] = v
				sc.names[e.Name] = Val{T: nv, Typ: v.Typ}
				sc.modParams = append(sc.modParams, e.Name)
				continue
			}
		}
		fc.noOblig++
		l := fc.specLoc(st, e, sc)
		fc.noOblig--
		if l == nil {
			panic(engineError{"modifies item is not a location: " + item})
		}
		if whole && (l.Kind == "field" || l.Kind == "mem") {
			st.heap[l.Key] = fc.freshConst(l.Key, ArrayOf(SV, l.Sort))
			continue
		}
		nv := fc.freshConst("mod", l.Sort)
		fc.writeLoc(st, l, nv)
		st.assume(fc.typeFacts(nv, l.Typ))
	}
}

// hasTypeParam reports whether a type mentions a type parameter (so that its sort depends on the instantiation).
func hasTypeParam(t types.Type, depth int) bool {
	if t == nil || depth > 6 {
		return false
	}
	switch x := types.Unalias(t).(type) {
	case *types.TypeParam:
		return true
	case *types.Pointer:
		return hasTypeParam(x.Elem(), depth+1)
	case *types.Slice:
		return hasTypeParam(x.Elem(), depth+1)
	case *types.Array:
		return hasTypeParam(x.Elem(), depth+1)
	case *types.Map:
		return hasTypeParam(x.Key(), depth+1) || hasTypeParam(x.Elem(), depth+1)
	case *types.Named:
		// an instantiated generic type whose arguments mention a type parameter (e.g. RoundMessages[M, P])
		if ta := x.TypeArgs(); ta != nil {
			for i := 0; i < ta.Len(); i++ {
				if hasTypeParam(ta.At(i), depth+1) {
					return true
				}
			}
		}
	}
	return false
}

// trustListed: "opt trustpre=F,G" names the callees whose preconditions are assumed instead of proved
func trustListed(list, name string) bool {
	for _, x := range strings.Split(list, ",") {
		if strings.TrimSpace(x) == name {
			return true
		}
	}
	return false
}

// contractApplies: "opt recvhas=M" restricts an interface-method contract to receivers whose static type also has a
// method M (e.g. the set reading of Equatable.Equal applies only to set types).
func (fc *FuncCtx) contractApplies(c *FuncContract, recv *Val) bool {
	m := c.Opts["recvhas"]
	if m == "" {
		return true
	}
	if recv == nil || recv.Typ == nil {
		return false
	}
	obj, _, _ := types.LookupFieldOrMethod(recv.Typ, true, nil, m)
	if obj == nil {
		if p := pointee(recv.Typ); p != nil {
			obj, _, _ = types.LookupFieldOrMethod(p, true, nil, m)
		}
	}
	_, ok := obj.(*types.Func)
	return ok
}
