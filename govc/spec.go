package main

import (
	"os"
	"fmt"
	"go/token"
	"go/types"
	"strings"
)

type specCtx struct {
	names  map[string]Val
	bound  map[string]Val
	old    *State
	pos    token.Pos
	pkg    *types.Package
	callee *calleeCtx
	binds  map[string]string
	inOld  bool
	oldNames  map[string]Val // entry values of parameters the callee modifies in place
	modParams []string
}

func (sc *specCtx) withBound(name string, v Val) *specCtx {
	n := *sc
	n.bound = map[string]Val{}
	for k, x := range sc.bound {
		n.bound[k] = x
	}
	n.bound[name] = v
	return &n
}

func (fc *FuncCtx) evalSpecBool(st *State, e *SExpr, sc *specCtx) *Term {
	v := fc.evalSpec(st, e, sc)
	if v.T == nil || v.T.Sort.Kind != "Bool" {
		panic(engineError{fmt.Sprintf("spec expression is not boolean: %s", e)})
	}
	return v.T
}

// sortOfTypeName resolves a type name used in quantifiers / ghost signatures.
func (fc *FuncCtx) sortOfTypeName(name string, sc *specCtx) (*Sort, types.Type) {
	name = strings.TrimSpace(name)
	if strings.HasPrefix(name, "[]") {
		s, _ := fc.sortOfTypeName(name[2:], sc)
		return SliceOf(s), nil
	}
	if strings.HasPrefix(name, "typeof(") && strings.HasSuffix(name, ")") {
		// typeof(x): the Go type of the function's local variable (or parameter) x
		vn := strings.TrimSpace(name[len("typeof(") : len(name)-1])
		if objs := fc.localsByName[vn]; len(objs) >= 1 {
			return fc.sortOf(objs[0].Type()), objs[0].Type()
		}
		// typeof(expr): the Go type of a specification expression (e.g. a field path) in the entry state
		if fc.entry != nil && sc != nil {
			if ex, err := parseSpecExpr(vn); err == nil {
				fc.noOblig++
				v := fc.evalSpec(fc.entry, ex, sc)
				fc.noOblig--
				if v.Typ != nil {
					return fc.sortOf(v.Typ), v.Typ
				}
			}
		}
		panic(engineError{"typeof: unknown local " + vn})
	}
	if strings.HasPrefix(name, "map[") {
		depth := 0
		for i := 3; i < len(name); i++ {
			if name[i] == '[' {
				depth++
			}
			if name[i] == ']' {
				depth--
				if depth == 0 {
					ks, kt := fc.sortOfTypeName(name[4:i], sc)
					vs, vt := fc.sortOfTypeName(name[i+1:], sc)
					if kt != nil && vt != nil {
						return MapOf(ks, vs), types.NewMap(kt, vt)
					}
					return MapOf(ks, vs), nil
				}
			}
		}
	}
	switch name {
	case "int", "uint", "int64", "uint64", "int32", "uint32", "uint8", "byte", "uint16", "int8", "int16", "Int":
		var bt types.Type
		switch name {
		case "Int":
			return SInt, nil
		case "int":
			bt = types.Typ[types.Int]
		case "uint":
			bt = types.Typ[types.Uint]
		case "int64":
			bt = types.Typ[types.Int64]
		case "uint64":
			bt = types.Typ[types.Uint64]
		case "uint8", "byte":
			bt = types.Typ[types.Uint8]
		case "uint32":
			bt = types.Typ[types.Uint32]
		case "int32":
			bt = types.Typ[types.Int32]
		case "uint16":
			bt = types.Typ[types.Uint16]
		case "int8":
			bt = types.Typ[types.Int8]
		case "int16":
			bt = types.Typ[types.Int16]
		}
		return SInt, bt
	case "bool", "Bool":
		return SBool, types.Typ[types.Bool]
	case "V", "any", "":
		return SV, nil
	}
	// Go type in scope
	base := name
	ptr := false
	if strings.HasPrefix(base, "*") {
		base = base[1:]
		ptr = true
	}
	var obj types.Object
	if i := strings.Index(base, "."); i >= 0 {
		pk, nm := base[:i], base[i+1:]
		var scopePkg *types.Package
		if sc != nil && sc.pkg != nil {
			scopePkg = sc.pkg
		} else {
			scopePkg = fc.pkg.Types
		}
		// import alias visible at the contract's position
		if sc != nil && sc.callee == nil && sc.pos.IsValid() && fc.pkg != nil {
			if inner := fc.pkg.Types.Scope().Innermost(sc.pos); inner != nil {
				if _, o := inner.LookupParent(pk, sc.pos); o != nil {
					if pn, ok := o.(*types.PkgName); ok {
						obj = pn.Imported().Scope().Lookup(nm)
					}
				}
			}
		}
		for _, imp := range scopePkg.Imports() {
			if obj == nil && imp.Name() == pk {
				obj = imp.Scope().Lookup(nm)
			}
		}
		if obj == nil {
			for _, p := range fc.eng.pkgs {
				if p.Types.Name() == pk {
					obj = p.Types.Scope().Lookup(nm)
				}
			}
		}
	} else {
		if sc != nil && sc.pkg != nil {
			obj = sc.pkg.Scope().Lookup(base)
		}
		if obj == nil {
			obj = fc.pkg.Types.Scope().Lookup(base)
		}
	}
	if tn, ok := obj.(*types.TypeName); ok {
		t := tn.Type()
		if ptr {
			t = types.NewPointer(t)
		}
		return fc.sortOf(t), t
	}
	if b, ok := fc.binds[base]; ok {
		return theorySort(b), nil
	}
	return SV, nil
}

func (fc *FuncCtx) lookupSpecName(st *State, name string, sc *specCtx) (Val, bool) {
	if v, ok := sc.bound[name]; ok {
		return v, true
	}
	if sc.inOld {
		if v, ok := sc.oldNames[name]; ok {
			return v, true
		}
	}
	if v, ok := sc.names[name]; ok {
		return v, true
	}
	if sc.callee == nil {
		if v, ok := st.names[name]; ok {
			return v, true
		}
	}
	switch name {
	case "nil":
		return Val{T: Const("nil", SV), Typ: types.Typ[types.UntypedNil]}, true
	case "true":
		return Val{T: TTrue, Typ: types.Typ[types.Bool]}, true
	case "false":
		return Val{T: TFalse, Typ: types.Typ[types.Bool]}, true
	}
	if sc.callee == nil && sc.pos.IsValid() {
		inner := fc.pkg.Types.Scope().Innermost(sc.pos)
		if inner != nil {
			if _, obj := inner.LookupParent(name, sc.pos); obj != nil {
				return fc.objVal(st, obj), true
			}
		}
		// locals declared later than pos (e.g. in ensures): search by name if unique
		if objs := fc.localsByName[name]; len(objs) == 1 {
			return fc.objVal(st, objs[0]), true
		}
	}
	if sc.pkg != nil {
		if obj := sc.pkg.Scope().Lookup(name); obj != nil {
			return fc.objVal(st, obj), true
		}
		for _, imp := range sc.pkg.Imports() {
			if imp.Name() == name {
				return Val{Pkg: imp}, true
			}
		}
		// a package that is not imported directly: search the import graph (contracts may name helpers of
		// packages their own package only depends on indirectly)
		if p := findPkgByName(sc.pkg, name, 4, map[*types.Package]bool{}); p != nil {
			return Val{Pkg: p}, true
		}
	}
	return Val{}, false
}

func findPkgByName(root *types.Package, name string, depth int, seen map[*types.Package]bool) *types.Package {
	if root == nil || depth < 0 || seen[root] {
		return nil
	}
	seen[root] = true
	for _, imp := range root.Imports() {
		if imp.Name() == name && strings.Contains(imp.Path(), "bron-crypto") {
			return imp
		}
	}
	for _, imp := range root.Imports() {
		if p := findPkgByName(imp, name, depth-1, seen); p != nil {
			return p
		}
	}
	return nil
}

func (fc *FuncCtx) objVal(st *State, obj types.Object) Val {
	switch o := obj.(type) {
	case *types.Var:
		return fc.readVar(st, o, token.NoPos)
	case *types.Const:
		s := fc.sortOf(o.Type())
		if t := constTerm(o.Val(), s); t != nil {
			return Val{T: t, Typ: o.Type()}
		}
	case *types.Func:
		return Val{FnObj: o, Typ: o.Type()}
	case *types.TypeName:
		return Val{TypeV: o.Type()}
	case *types.PkgName:
		return Val{Pkg: o.Imported()}
	case *types.Nil:
		return Val{T: Const("nil", SV), Typ: types.Typ[types.UntypedNil]}
	}
	panic(engineError{fmt.Sprintf("spec: unsupported object %v", obj)})
}

func (fc *FuncCtx) evalSpec(st *State, e *SExpr, sc *specCtx) Val {
	switch e.Kind {
	case "int":
		s := e.Name
		if strings.HasPrefix(s, "0x") || strings.HasPrefix(s, "0X") {
			var n int64
			fmt.Sscanf(s, "%v", &n)
			return Val{T: IntLit(n), Typ: types.Typ[types.UntypedInt]}
		}
		return Val{T: IntLitS(s), Typ: types.Typ[types.UntypedInt]}
	case "str":
		return Val{T: strConst(e.Name), Typ: types.Typ[types.String]}
	case "ident":
		v, ok := fc.lookupSpecName(st, e.Name, sc)
		if !ok {
			// ghost constant (nullary ghost function)
			if g, ok := fc.eng.contracts.Ghosts[e.Name]; ok && len(g.Params) == 0 {
				return fc.callGhost(st, g, nil, sc)
			}
			where := ""
			if sc.callee != nil && sc.callee.fn != nil {
				where = " (in the contract of " + sc.callee.fn.FullName() + ")"
			}
			panic(engineError{fmt.Sprintf("spec: unknown name %q%s", e.Name, where)})
		}
		return v
	case "old":
		if sc.old == nil {
			return fc.evalSpec(st, e.Args[0], sc)
		}
		n := *sc
		n.inOld = true
		// evaluate in the old state but keep facts in the current state
		o := sc.old.clone()
		o.pc = st.pc
		fc.noOblig++
		v := fc.evalSpec(o, e.Args[0], &n)
		fc.noOblig--
		st.pc = o.pc
		return v
	case "unary":
		if e.Name == "*" {
			p := fc.evalSpec(st, e.Args[0], sc)
			if isStructPtr(p.Typ) && !strings.HasSuffix(fc.bindOf(p.Typ), "ptr") {
				return Val{T: p.T, Typ: pointee(p.Typ)}
			}
			l := fc.derefLoc(st, p, token.NoPos)
			return Val{T: fc.readLoc(st, l), Typ: l.Typ}
		}
		if e.Name == "&" {
			p := fc.evalSpec(st, e.Args[0], sc)
			if isStruct(p.Typ) {
				return Val{T: p.T, Typ: types.NewPointer(p.Typ)}
			}
			l := fc.specLoc(st, e.Args[0], sc)
			return Val{Loc: l, Typ: types.NewPointer(l.Typ)}
		}
		x := fc.evalSpec(st, e.Args[0], sc)
		switch e.Name {
		case "!":
			return Val{T: Not(x.T), Typ: x.Typ}
		case "-":
			return Val{T: Sub(IntLit(0), x.T), Typ: x.Typ}
		}
	case "binary":
		switch e.Name {
		case "&&", "||", "==>", "<==>":
			a := fc.evalSpec(st, e.Args[0], sc)
			b := fc.evalSpec(st, e.Args[1], sc)
			if a.T == nil || b.T == nil || a.T.Sort.Kind != "Bool" || b.T.Sort.Kind != "Bool" {
				panic(engineError{fmt.Sprintf("spec: boolean operator on non-boolean in %s", e)})
			}
			switch e.Name {
			case "&&":
				return Val{T: And(a.T, b.T), Typ: types.Typ[types.Bool]}
			case "||":
				return Val{T: Or(a.T, b.T), Typ: types.Typ[types.Bool]}
			case "==>":
				return Val{T: Implies(a.T, b.T), Typ: types.Typ[types.Bool]}
			default:
				return Val{T: Eq(a.T, b.T), Typ: types.Typ[types.Bool]}
			}
		case "in":
			a := fc.evalSpec(st, e.Args[0], sc)
			b := fc.evalSpec(st, e.Args[1], sc)
			return Val{T: fc.member(st, a, b), Typ: types.Typ[types.Bool]}
		}
		a := fc.evalSpec(st, e.Args[0], sc)
		b := fc.evalSpec(st, e.Args[1], sc)
		rt := a.Typ
		if e.Name == "==" || e.Name == "!=" || e.Name == "<" || e.Name == "<=" || e.Name == ">" || e.Name == ">=" {
			rt = types.Typ[types.Bool]
		}
		// spec arithmetic is mathematical: no wrap
		ot := a.Typ
		if a.T != nil && a.T.Sort.Kind == "Int" {
			switch e.Name {
			case "+":
				return Val{T: Add(a.T, b.T), Typ: rt}
			case "-":
				return Val{T: Sub(a.T, b.T), Typ: rt}
			case "*":
				return Val{T: Mul(a.T, b.T), Typ: rt}
			case "/":
				return Val{T: Div(a.T, b.T), Typ: rt}
			case "%":
				return Val{T: Mod(a.T, b.T), Typ: rt}
			}
			if e.Name == "<<" || e.Name == ">>" {
				ot = types.Typ[types.Int]
				rt = types.Typ[types.Int]
			}
			if e.Name == "&" || e.Name == "|" || e.Name == "^" || e.Name == "&^" {
				if w, _ := intWidth(a.Typ); w != 8 {
					if w2, _ := intWidth(b.Typ); w2 == 8 {
						ot = b.Typ
					}
				}
			}
		}
		return fc.binop(st, e.Name, a, b, rt, ot, token.NoPos)
	case "sel":
		base := fc.evalSpec(st, e.Args[0], sc)
		if base.Pkg != nil {
			obj := base.Pkg.Scope().Lookup(e.Name)
			if obj == nil {
				panic(engineError{fmt.Sprintf("spec: %s.%s not found", base.Pkg.Name(), e.Name)})
			}
			return fc.objVal(st, obj)
		}
		if base.Typ == nil {
			panic(engineError{fmt.Sprintf("spec: selector %s on value without Go type", e)})
		}
		obj, index, _ := lookupFM(base.Typ, fc.pkgOf(sc), e.Name)
		switch o := obj.(type) {
		case *types.Var:
			l := fc.specFieldLoc(st, base, index, sc)
			t := fc.readLoc(st, l)
			_ = o
			// heap invariant: fields hold nil or objects that exist (so they differ from later allocations)
			fc.existing(st, t, l.Typ)
			return Val{T: t, Typ: l.Typ}
		case *types.Func:
			b := base
			if len(index) > 1 {
				// promoted method: the receiver is the embedded field (same as in code)
				l := fc.specFieldLoc(st, base, index[:len(index)-1], sc)
				b = Val{T: fc.readLoc(st, l), Typ: l.Typ}
			}
			return Val{FnObj: o, Recv: &b, Typ: o.Type()}
		}
		panic(engineError{fmt.Sprintf("spec: no field or method %s on %v", e.Name, base.Typ)})
	case "index":
		base := fc.evalSpec(st, e.Args[0], sc)
		idx := fc.evalSpec(st, e.Args[1], sc)
		if base.T == nil {
			panic(engineError{fmt.Sprintf("spec: index on non-term %s", e)})
		}
		switch base.T.Sort.Kind {
		case "Slice":
			var et types.Type
			if base.Typ != nil {
				switch tt := types.Unalias(base.Typ).Underlying().(type) {
				case *types.Slice:
					et = tt.Elem()
				case *types.Array:
					et = tt.Elem()
				}
			}
			return Val{T: SliceAt(base.T, idx.T), Typ: et}
		case "Map":
			var et types.Type
			if base.Typ != nil {
				if mt, ok := types.Unalias(base.Typ).Underlying().(*types.Map); ok {
					et = mt.Elem()
				}
			}
			k := idx.T
			if !k.Sort.Eq(base.T.Sort.Key) {
				k = fc.coerceTerm(k, base.T.Sort.Key)
			}
			v := Select(MapArr(base.T), k)
			if et != nil {
				// as in Go: a missing key yields the zero value (same rule as the executable m[k])
				zero := fc.zeroVal(et, "mz")
				if len(zero.Args) == 0 && zero.Op != "mk-slice" && !zero.UF || zero.Op == "nil" || zero.Op == "lit" {
					v = Ite(Select(MapDom(base.T), k), v, zero)
				}
			}
			return Val{T: v, Typ: et}
		case "V":
			v := App("str$at", SInt, base.T, idx.T)
			return Val{T: v, Typ: types.Typ[types.Uint8]}
		}
		panic(engineError{fmt.Sprintf("spec: index on sort %s", base.T.Sort)})
	case "slice":
		base := fc.evalSpec(st, e.Args[0], sc)
		if base.Loc != nil {
			base = Val{T: fc.readLoc(st, base.Loc), Typ: base.Loc.Typ}
		}
		if p := pointee(base.Typ); p != nil && base.T != nil && base.T.Sort.Kind == "V" && fc.sortOf(p).Kind == "Slice" {
			l := fc.derefLoc(st, base, token.NoPos)
			base = Val{T: fc.readLoc(st, l), Typ: p}
		}
		lo := IntLit(0)
		hi := SliceLen(base.T)
		if e.Args[1] != nil {
			lo = fc.evalSpec(st, e.Args[1], sc).T
		}
		if e.Args[2] != nil {
			hi = fc.evalSpec(st, e.Args[2], sc).T
		}
		fc.noOblig++
		r := fc.sliceOf(st, base.T, lo, hi, token.NoPos, false)
		fc.noOblig--
		return Val{T: r, Typ: base.Typ}
	case "quant":
		n := sc
		var vars []*Term
		var guards []*Term
		for _, qv := range e.Vars {
			s, gt := fc.sortOfTypeName(qv.Type, sc)
			fc.fresh++
			bv := BVar(fmt.Sprintf("%s!q%d", qv.Name, fc.fresh), s)
			vars = append(vars, bv)
			n = n.withBound(qv.Name, Val{T: bv, Typ: gt})
			// quantified 64-bit integers are mathematical (no range guard); small integer types keep their range
			if w, _ := intWidth(gt); gt != nil && (w == 0 || w < 64) {
				guards = append(guards, fc.typeFacts(bv, gt))
			}
		}
		// facts generated inside the quantifier body must not leak (they mention bound vars)
		inner := st.clone()
		fc.noName++
		body := fc.evalSpecBool(inner, e.Args[0], n)
		fc.noName--
		// collect leaked facts as extra antecedents/conjuncts
		var extra []*Term
		for p := inner.pc; p != st.pc; p = p.parent {
			extra = append(extra, p.fact)
		}
		for k, v := range inner.heap {
			if _, ok := st.heap[k]; !ok {
				st.heap[k] = v
			}
		}
		g := And(guards...)
		ex := And(extra...)
		// facts produced while evaluating the body (definitions, type facts, assumed contract consequences of
		// pure callees) hold for every value of the bound variables: they become a separate universally
		// quantified assumption instead of an antecedent, so that they can be used in both polarities
		if !ex.IsTrue() {
			fq := Forall(vars, Implies(g, ex))
			autoPattern(fq)
			st.assume(fq)
		}
		if e.Name == "forall" {
			q := Forall(vars, Implies(g, body))
			autoPattern(q)
			return Val{T: q, Typ: types.Typ[types.Bool]}
		}
		return Val{T: Exists(vars, And(g, body)), Typ: types.Typ[types.Bool]}
	case "call":
		return fc.evalSpecCall(st, e, sc)
	}
	panic(engineError{fmt.Sprintf("spec: unsupported expression %s", e)})
}

func (fc *FuncCtx) pkgOf(sc *specCtx) *types.Package {
	if sc.pkg != nil {
		return sc.pkg
	}
	return fc.pkg.Types
}

func (fc *FuncCtx) coerceTerm(t *Term, to *Sort) *Term {
	if t.Sort.Eq(to) {
		return t
	}
	if to.Kind == "V" {
		return App("box$"+sortTag(t.Sort), SV, t)
	}
	if t.Sort.Kind == "V" {
		return App("unbox$"+sortTag(to), to, t)
	}
	panic(engineError{fmt.Sprintf("cannot coerce %s to %s", t.Sort, to)})
}

func (fc *FuncCtx) member(st *State, a, b Val) *Term {
	switch b.T.Sort.Kind {
	case "Map":
		k := fc.coerceTerm(a.T, b.T.Sort.Key)
		return Select(MapDom(b.T), k)
	case "Slice":
		fc.fresh++
		j := BVar(fmt.Sprintf("j!m%d", fc.fresh), SInt)
		return Exists([]*Term{j}, And(Le(IntLit(0), j), Lt(j, SliceLen(b.T)), Eq(SliceAt(b.T, j), fc.coerceTerm(a.T, b.T.Sort.Elem))))
	case "V":
		return App("set$in$"+sortTag(a.T.Sort), SBool, a.T, b.T)
	}
	panic(engineError{"spec: 'in' on unsupported sort"})
}

func (fc *FuncCtx) specFieldLoc(st *State, base Val, index []int, sc *specCtx) *Loc {
	rt := base.Typ
	cur := base.T
	var loc *Loc
	for k, i := range index {
		rtu := types.Unalias(rt)
		if p, ok := rtu.Underlying().(*types.Pointer); ok {
			rtu = p.Elem()
		}
		stt, ok := types.Unalias(rtu).Underlying().(*types.Struct)
		if !ok {
			panic(engineError{fmt.Sprintf("spec: field path through non-struct %v", rt)})
		}
		f := stt.Field(i)
		loc = &Loc{Kind: "field", Base: cur, Key: fc.fieldKey(f), Sort: fc.sortOf(f.Origin().Type()), Typ: f.Type()}
		if k < len(index)-1 {
			cur = fc.readLoc(st, loc)
			rt = f.Type()
		}
	}
	return loc
}

// ghostFieldLoc: location of ghost field name(obj)
func (fc *FuncCtx) ghostFieldLoc(st *State, name string, argEs []*SExpr, sc *specCtx) *Loc {
	gf, ok := fc.eng.contracts.GhostFields[name]
	if !ok || len(argEs) != 1 {
		return nil
	}
	a := fc.evalSpec(st, argEs[0], sc)
	if a.T == nil && a.Loc != nil {
		a = Val{T: fc.readLoc(st, a.Loc), Typ: a.Loc.Typ}
	}
	s, _ := fc.sortOfTypeName(gf.Sort, sc)
	return &Loc{Kind: "field", Base: fc.coerceTerm(a.T, SV), Key: "GF$" + name, Sort: s}
}

// specLoc evaluates a spec expression to a location (for modifies / &x).
func (fc *FuncCtx) specLoc(st *State, e *SExpr, sc *specCtx) *Loc {
	switch e.Kind {
	case "call":
		if e.Args[0].Kind == "ident" {
			if l := fc.ghostFieldLoc(st, e.Args[0].Name, e.Args[1:], sc); l != nil {
				return l
			}
		}
	case "sel":
		base := fc.evalSpec(st, e.Args[0], sc)
		if base.Typ == nil {
			return nil
		}
		obj, index, _ := lookupFM(base.Typ, fc.pkgOf(sc), e.Name)
		if _, ok := obj.(*types.Var); ok {
			return fc.specFieldLoc(st, base, index, sc)
		}
	case "unary":
		if e.Name == "*" {
			p := fc.evalSpec(st, e.Args[0], sc)
			if isStructPtr(p.Typ) && !strings.HasSuffix(fc.bindOf(p.Typ), "ptr") {
				return nil
			}
			return fc.derefLoc(st, p, token.NoPos)
		}
	case "index":
		parent := fc.specLoc(st, e.Args[0], sc)
		if parent == nil {
			return nil
		}
		idx := fc.evalSpec(st, e.Args[1], sc)
		switch parent.Sort.Kind {
		case "Slice":
			return &Loc{Kind: "elem", Parent: parent, Index: idx.T, Sort: parent.Sort.Elem}
		case "Map":
			return &Loc{Kind: "mapelem", Parent: parent, Index: fc.coerceTerm(idx.T, parent.Sort.Key), Sort: parent.Sort.Elem}
		}
	case "ident":
		if sc.callee == nil && sc.pos.IsValid() {
			inner := fc.pkg.Types.Scope().Innermost(sc.pos)
			if inner != nil {
				if _, obj := inner.LookupParent(e.Name, sc.pos); obj != nil {
					if v, ok := obj.(*types.Var); ok {
						return &Loc{Kind: "local", Obj: v, Sort: fc.sortOf(v.Type()), Typ: v.Type()}
					}
				}
			}
		}
	}
	return nil
}

func (fc *FuncCtx) callGhost(st *State, g *GhostFunc, args []Val, sc *specCtx) Val {
	if len(args) != len(g.Params) {
		panic(engineError{fmt.Sprintf("spec: ghost %s arity mismatch", g.Name)})
	}
	rs, rt := fc.sortOfTypeName(g.Ret, sc)
	var ts []*Term
	for i, a := range args {
		ps, _ := fc.sortOfTypeName(g.Params[i].Type, sc)
		if a.T == nil {
			if a.Loc != nil {
				a = Val{T: fc.readLoc(st, a.Loc), Typ: a.Loc.Typ}
			} else {
				panic(engineError{fmt.Sprintf("spec: ghost %s arg %d is not a term", g.Name, i)})
			}
		}
		ts = append(ts, fc.coerceTerm(a.T, ps))
	}
	if g.Body == nil {
		return Val{T: App("g$"+g.Name, rs, ts...), Typ: rt}
	}
	// defined: expand
	n := &specCtx{names: map[string]Val{}, bound: sc.bound, old: sc.old, pos: token.NoPos, pkg: sc.pkg, callee: &calleeCtx{}, binds: sc.binds}
	if g.PkgPath != "" {
		if dp, ok := fc.eng.pkgs[g.PkgPath]; ok && dp.Types != nil {
			// the body is written in the defining package's scope
			n.pkg = dp.Types
		}
	}
	for i, p := range g.Params {
		_, pt := fc.sortOfTypeName(p.Type, sc)
		typ := args[i].Typ
		if typ == nil {
			typ = pt
		}
		n.names[p.Name] = Val{T: ts[i], Typ: typ}
	}
	v := fc.evalSpec(st, g.Body, n)
	if v.T != nil && !v.T.Sort.Eq(rs) {
		v.T = fc.coerceTerm(v.T, rs)
	}
	return v
}

func (fc *FuncCtx) evalSpecCall(st *State, e *SExpr, sc *specCtx) Val {
	fun := e.Args[0]
	argEs := e.Args[1:]
	evalArgs := func() []Val {
		var vs []Val
		for _, a := range argEs {
			vs = append(vs, fc.evalSpec(st, a, sc))
		}
		return vs
	}
	if fun.Kind == "ident" {
		name := fun.Name
		// not shadowed by a local/param name
		if _, shadow := sc.bound[name]; !shadow {
			if l := fc.ghostFieldLoc(st, name, argEs, sc); l != nil {
				return Val{T: fc.readLoc(st, l)}
			}
			if v, ok := fc.specBuiltin(st, name, argEs, sc); ok {
				return v
			}
			if g, ok := fc.eng.contracts.Ghosts[name]; ok {
				return fc.callGhost(st, g, evalArgs(), sc)
			}
		}
	}
	fv := fc.evalSpec(st, fun, sc)
	if fv.TypeV != nil {
		// conversion
		a := fc.evalSpec(st, argEs[0], sc)
		if a.T != nil {
			ts := fc.sortOf(fv.TypeV)
			if ts.Eq(a.T.Sort) {
				return Val{T: a.T, Typ: fv.TypeV}
			}
			return Val{T: fc.coerceTerm(a.T, ts), Typ: fv.TypeV}
		}
		a.Typ = fv.TypeV
		return a
	}
	if fv.FnObj != nil {
		if os.Getenv("GOVC_DEBUG") != "" {
			pp, k := funcKeyOf(fv.FnObj)
			fmt.Fprintf(os.Stderr, "DEBUG speccall %s::%s contract=%v recvTyp=%v\n", pp, k, fc.eng.contractFor(fv.FnObj) != nil, func() any { if fv.Recv != nil { return fv.Recv.Typ }; return nil }())
		}
		args := evalArgs()
		sig := fv.FnObj.Type().(*types.Signature)
		if fv.Recv == nil {
			sig = inferSig(sig, args)
		}
		var resT types.Type = sig.Results()
		if sig.Results().Len() == 1 {
			resT = sig.Results().At(0).Type()
		}
		fc.noOblig++
		defer func() { fc.noOblig-- }()
		saved := fc.inSpec
		fc.inSpec = true
		defer func() { fc.inSpec = saved }()
		if fv.Recv != nil {
			if b := fc.bindOf(fv.Recv.Typ); b != "" {
				if v, ok := fc.theoryCall(st, b, fv.FnObj, fv.Recv, args, resT, token.NoPos); ok {
					return v
				}
			}
		}
		if c := fc.eng.contractFor(fv.FnObj); c != nil && c.Pure && fc.contractApplies(c, fv.Recv) {
			return fc.applyContract(st, fv.FnObj, c, fv.Recv, args, resT, token.NoPos, e.Name == "...")
		}
		return fc.defaultCall(st, fv.FnObj, fv.Recv, args, resT, token.NoPos)
	}
	if fv.T != nil && fv.Typ != nil {
		if sig, ok := types.Unalias(fv.Typ).Underlying().(*types.Signature); ok {
			var resT types.Type = sig.Results()
			if sig.Results().Len() == 1 {
				resT = sig.Results().At(0).Type()
			}
			return fc.applyFnValue(st, fv, evalArgs(), resT)
		}
	}
	panic(engineError{fmt.Sprintf("spec: cannot call %s", fun)})
}

// specBuiltin: built-in specification functions
func (fc *FuncCtx) specBuiltin(st *State, name string, argEs []*SExpr, sc *specCtx) (Val, bool) {
	arg := func(i int) Val { return fc.evalSpec(st, argEs[i], sc) }
	tBool := types.Typ[types.Bool]
	tInt := types.Typ[types.Int]
	switch name {
	case "param":
		// the enclosing function's parameter of that name, even where a local shadows it
		if len(argEs) == 1 && argEs[0].Kind == "ident" && fc.sig != nil && sc.callee == nil {
			for i := 0; i < fc.sig.Params().Len(); i++ {
				if p := fc.sig.Params().At(i); p.Name() == argEs[0].Name {
					return fc.objVal(st, p), true
				}
			}
		}
	case "len":
		a := arg(0)
		if a.Loc != nil {
			a = Val{T: fc.readLoc(st, a.Loc), Typ: a.Loc.Typ}
		}
		if p := pointee(a.Typ); p != nil && a.T.Sort.Kind == "V" && fc.sortOf(p).Kind == "Slice" {
			l := fc.derefLoc(st, a, token.NoPos)
			a = Val{T: fc.readLoc(st, l), Typ: p}
		}
		switch a.T.Sort.Kind {
		case "Slice":
			return Val{T: SliceLen(a.T), Typ: tInt}, true
		case "Map":
			return Val{T: App("mapcard$"+sortTag(a.T.Sort), SInt, a.T), Typ: tInt}, true
		case "V":
			return Val{T: App("str$len", SInt, a.T), Typ: tInt}, true
		}
	case "bytesEq":
		a, b := arg(0), arg(1)
		return Val{T: fc.bytesEq(a.T, b.T), Typ: tBool}, true
	case "culprit":
		a, b := arg(0), arg(1)
		// the nil error blames nobody
		return Val{T: And(Not(Eq(a.T, Const("nil", SV))), App("culprit", SBool, a.T, fc.coerceTerm(b.T, SV))), Typ: tBool}, true
	case "errIs":
		a, b := arg(0), arg(1)
		return Val{T: App("err$is", SBool, a.T, b.T), Typ: tBool}, true
	case "has":
		m, k := arg(0), arg(1)
		if m.T.Sort.Kind == "Map" {
			return Val{T: Select(MapDom(m.T), fc.coerceTerm(k.T, m.T.Sort.Key)), Typ: tBool}, true
		}
	case "seqlen":
		a := arg(0)
		return Val{T: App("seqlen", SInt, a.T), Typ: tInt}, true
	case "seqat":
		a, i := arg(0), arg(1)
		s := SV
		if len(argEs) > 2 {
			s, _ = fc.sortOfTypeName(argEs[2].Name, sc)
		}
		return Val{T: App("seqat$"+sortTag(s), s, a.T, i.T)}, true
	case "seqat2":
		// second component of the a-th pair of an iter.Seq2
		a, i := arg(0), arg(1)
		s := SV
		if len(argEs) > 2 {
			s, _ = fc.sortOfTypeName(argEs[2].Name, sc)
		}
		var typ types.Type
		if len(argEs) > 3 {
			_, typ = fc.sortOfTypeName(strings.ReplaceAll(argEs[3].String(), " ", ""), sc)
		}
		return Val{T: App("seqat2$"+sortTag(s), s, a.T, i.T), Typ: typ}, true
	case "ite":
		c, a, b := arg(0), arg(1), arg(2)
		return Val{T: Ite(c.T, a.T, b.T), Typ: a.Typ}, true
	case "pow2":
		a := arg(0)
		return Val{T: mk("pow2", SInt, a.T), Typ: tInt}, true
	case "bit":
		a, k := arg(0), arg(1)
		return Val{T: mk("bit", SInt, a.T, k.T), Typ: tInt}, true
	case "allocated":
		// allocated(x): the object x exists in the current state (it is not a later allocation)
		a := arg(0)
		return Val{T: Select(fc.allocArr(st), fc.coerceTerm(a.T, SV)), Typ: tBool}, true
	case "res":
		// res(call, i): i-th result of a multi-result call
		a := arg(0)
		var i int
		fmt.Sscanf(argEs[1].Name, "%d", &i)
		if len(a.Tuple) == 0 && i == 0 {
			return a, true
		}
		if i < len(a.Tuple) {
			return a.Tuple[i], true
		}
		panic(engineError{"spec: res(): index out of range in " + argEs[0].String()})
	case "as":
		// as(x, T): x viewed at Go type T (type assertion / conversion without change of value)
		a := arg(0)
		_, t := fc.sortOfTypeName(strings.ReplaceAll(argEs[1].String(), " ", ""), sc)
		if t == nil {
			panic(engineError{"spec: as(): unknown type " + argEs[1].String()})
		}
		return Val{T: fc.coerceTerm(a.T, fc.sortOf(t)), Typ: t}, true
	case "bytes":
		// bytes(a, b, ...): the byte slice literal []byte{a, b, ...}
		var cur *Term = &Term{Op: "const-array", Args: []*Term{IntLit(0)}, Sort: ArrayOf(SInt, SInt)}
		for i := range argEs {
			cur = Store(cur, IntLit(int64(i)), arg(i).T)
		}
		return Val{T: MkSlice(cur, IntLit(int64(len(argEs)))), Typ: types.NewSlice(types.Typ[types.Uint8])}, true
	case "list":
		// list(a, b, ...): the slice literal {a, b, ...} (e.g. the packed arguments of a variadic call)
		if len(argEs) == 0 {
			return Val{}, false
		}
		first := arg(0)
		es := first.T.Sort
		var cur *Term = &Term{Op: "const-array", Args: []*Term{fc.zeroElem(es)}, Sort: ArrayOf(SInt, es)}
		cur = Store(cur, IntLit(0), first.T)
		for i := 1; i < len(argEs); i++ {
			cur = Store(cur, IntLit(int64(i)), fc.coerceTerm(arg(i).T, es))
		}
		return Val{T: MkSlice(cur, IntLit(int64(len(argEs))))}, true
	case "zerobytes":
		// zerobytes(n): the value of make([]byte, n)
		a := arg(0)
		return Val{T: MkSlice(&Term{Op: "const-array", Args: []*Term{IntLit(0)}, Sort: ArrayOf(SInt, SInt)}, a.T), Typ: types.NewSlice(types.Typ[types.Uint8])}, true
	case "strbytes":
		a := arg(0)
		return Val{T: App("str$bytes", SliceOf(SInt), a.T), Typ: types.NewSlice(types.Typ[types.Uint8])}, true
	case "min", "max":
		if len(argEs) == 2 {
			a, b := arg(0), arg(1)
			if a.T != nil && b.T != nil && a.T.Sort.Kind == "Int" && b.T.Sort.Kind == "Int" {
				if name == "min" {
					return Val{T: Ite(Le(a.T, b.T), a.T, b.T), Typ: tInt}, true
				}
				return Val{T: Ite(Ge(a.T, b.T), a.T, b.T), Typ: tInt}, true
			}
		}
	case "bvor64", "bvand64", "bvxor64":
		// the (uninterpreted) wide bitwise operators of the executable model, so that trusted bit facts can be stated
		a, b := arg(0), arg(1)
		return Val{T: App(name, SInt, a.T, b.T), Typ: types.Typ[types.Uint]}, true
	case "or8", "and8", "xor8", "andnot8":
		a, b := arg(0), arg(1)
		return Val{T: mk(name, SInt, a.T, b.T), Typ: types.Typ[types.Uint8]}, true
	case "box":
		a := arg(0)
		return Val{T: fc.coerceTerm(a.T, SV)}, true
	case "int":
		a := arg(0)
		if a.T != nil && a.T.Sort.Kind == "Int" {
			return Val{T: a.T, Typ: tInt}, true
		}
	case "mkslice":
		// mkslice(arrsource, n): prefix of slice
		a, n := arg(0), arg(1)
		return Val{T: MkSlice(SliceArr(a.T), n.T), Typ: a.Typ}, true
	case "fresh":
		return Val{}, false
	}
	return Val{}, false
}

func (fc *FuncCtx) bytesEq(a, b *Term) *Term {
	fc.fresh++
	j := BVar(fmt.Sprintf("j!e%d", fc.fresh), SInt)
	return And(Eq(SliceLen(a), SliceLen(b)), Forall([]*Term{j}, Implies(And(Le(IntLit(0), j), Lt(j, SliceLen(a))), Eq(SliceAt(a, j), SliceAt(b, j)))))
}
