package main

import (
	"path/filepath"
	"os/exec"
	"flag"
	"fmt"
	"os"
	"sort"
	"strings"
	"sync"
	"time"

	"golang.org/x/tools/go/packages"
)

const modPath = "github.com/bronlabs/bron-crypto"

var repoDir = "/repo"
var verifDir = "/verif"

func loadEngine(cs *Contracts, pkgPaths []string, overlay map[string][]byte) (*Engine, error) {
	cfg := &packages.Config{
		Mode:       packages.NeedName | packages.NeedFiles | packages.NeedSyntax | packages.NeedTypes | packages.NeedTypesInfo | packages.NeedImports,
		Dir:        repoDir,
		BuildFlags: []string{"-tags=purego,verif"},
		Env:        append(os.Environ(), "GOFLAGS="), // workspace mode (go.work + go.work.sum) as the repository itself builds
		Overlay:    overlay,
	}
	pkgs, err := packages.Load(cfg, pkgPaths...)
	if err != nil {
		return nil, err
	}
	// Mixing source-checked packages with export data for their dependencies occasionally confuses type identity
	// when many packages are loaded at once; fall back to type-checking the dependencies from source as well.
	hasErr := false
	for _, p := range pkgs {
		if len(p.Errors) > 0 {
			hasErr = true
		}
	}
	if hasErr && len(pkgPaths) > 1 {
		// load every package on its own (each function is verified inside its own package's type universe)
		type lr struct {
			ps  []*packages.Package
			err error
		}
		results := make([]lr, len(pkgPaths))
		sem := make(chan struct{}, 6)
		var wg sync.WaitGroup
		for i, pp := range pkgPaths {
			wg.Add(1)
			go func(i int, pp string) {
				defer wg.Done()
				sem <- struct{}{}
				defer func() { <-sem }()
				c2 := *cfg
				ps, err := packages.Load(&c2, pp)
				results[i] = lr{ps, err}
			}(i, pp)
		}
		wg.Wait()
		pkgs = nil
		for _, r := range results {
			if r.err != nil {
				return nil, r.err
			}
			pkgs = append(pkgs, r.ps...)
		}
	}
	e := &Engine{pkgs: map[string]*packages.Package{}, contracts: cs, modPath: modPath, overlay: overlay}
	for _, p := range pkgs {
		if len(p.Errors) > 0 {
			return nil, fmt.Errorf("package %s has errors: %v", p.PkgPath, p.Errors[0])
		}
		e.pkgs[p.PkgPath] = p
		e.fset = p.Fset
	}
	e.index()
	return e, nil
}

func hasProp(ps []string, p string) bool {
	if p == "" {
		return true
	}
	for _, x := range ps {
		if x == p {
			return true
		}
	}
	return false
}

func main() {
	if len(os.Args) < 2 {
		fmt.Fprintln(os.Stderr, "usage: govc verify|check ...")
		os.Exit(2)
	}
	defer cleanupScratch()
	switch os.Args[1] {
	case "verify":
		cmdVerify(os.Args[2:])
	case "gen-decoders":
		cmdGenDecoders(repoDir)
	case "selftest":
		r := runSelftest(os.Args[2])
		fmt.Printf("%s: mutants=%v detected=%v\n", os.Args[2], r["mutants"], r["detected"])
		if s, ok := r["silent"].([]string); ok {
			for _, x := range s {
				fmt.Println("  SILENT:", x)
			}
		}
	case "seed":
		// govc seed <dir with patch.diff> <property> : verify the property's contracts against /repo + patch (in memory)
		code := cmdSeed(os.Args[2:])
		cleanupScratch()
		os.Exit(code)
	case "check":
		code := cmdCheck(os.Args[2:])
		cleanupScratch()
		os.Exit(code)
	default:
		fmt.Fprintln(os.Stderr, "unknown command")
		os.Exit(2)
	}
}

type verifyOut struct {
	funcs   []*FuncResult
	obls    []*Obligation
	lemmas  int
	errs    []string
	wall    float64
	solverT float64
}

func runVerify(prop, funcPat string, timeout int, overlay map[string][]byte) (*verifyOut, *Engine, error) {
	t0 := time.Now()
	cs, err := loadContracts(repoDir, verifDir+"/specs", modPath)
	if err != nil {
		return nil, nil, err
	}
	var sel []*FuncContract
	pkgSet := map[string]bool{}
	for _, c := range cs.Funcs {
		if c.Assumed || !strings.HasPrefix(c.PkgPath, modPath) {
			continue
		}
		if !hasProp(c.Properties, prop) {
			continue
		}
		if funcPat != "" && !strings.Contains(c.PkgPath+"::"+c.Key, funcPat) {
			continue
		}
		sel = append(sel, c)
		pkgSet[c.PkgPath] = true
	}
	for pp := range pkgSet {
		for _, extra := range cs.LoadAlso[pp] {
			if !strings.HasPrefix(extra, modPath) {
				extra = modPath + "/" + strings.TrimPrefix(extra, "/")
			}
			pkgSet[extra] = true
		}
	}
	sort.Slice(sel, func(i, j int) bool { return sel[i].PkgPath+sel[i].Key < sel[j].PkgPath+sel[j].Key })
	var pkgPaths []string
	for p := range pkgSet {
		pkgPaths = append(pkgPaths, p)
	}
	sort.Strings(pkgPaths)
	out := &verifyOut{}
	var eng *Engine
	if len(pkgPaths) > 0 {
		eng, err = loadEngine(cs, pkgPaths, overlay)
		if err != nil {
			return nil, nil, err
		}
	} else {
		eng = &Engine{pkgs: map[string]*packages.Package{}, contracts: cs, modPath: modPath}
		eng.index()
	}
	for _, c := range sel {
		fi := eng.funcDecls[c.PkgPath+"::"+c.Key]
		if fi == nil {
			out.funcs = append(out.funcs, &FuncResult{Name: c.PkgPath + "::" + c.Key, Key: c.PkgPath + "::" + c.Key, Props: c.Properties, Orphaned: true, EngineErr: "CONTRACT-ORPHANED: function not found"})
			continue
		}
		r := eng.verifyFunc(fi, c)
		out.funcs = append(out.funcs, r)
		out.obls = append(out.obls, r.Obls...)
	}
	for _, l := range cs.Lemmas {
		if !hasProp(l.Properties, prop) {
			continue
		}
		if funcPat != "" && !strings.Contains("lemma."+l.Name, funcPat) {
			continue
		}
		obs, err := eng.lemmaObligation(l)
		if err != nil {
			out.errs = append(out.errs, err.Error())
			continue
		}
		out.lemmas++
		out.obls = append(out.obls, obs...)
	}
	if err := eng.discharge(out.obls, runOpts{timeout: timeout, workers: 10}); err != nil {
		return nil, nil, err
	}
	for _, o := range out.obls {
		out.solverT += o.Result.Time
	}
	out.wall = time.Since(t0).Seconds()
	return out, eng, nil
}

func cmdVerify(args []string) {
	fs := flag.NewFlagSet("verify", flag.ExitOnError)
	prop := fs.String("prop", "", "property id")
	fn := fs.String("func", "", "function key substring")
	timeout := fs.Int("timeout", 8, "solver timeout (s)")
	verbose := fs.Bool("v", false, "verbose")
	dump := fs.String("dump", "", "dump SMT query of obligation with this name")
	mut := fs.String("mut", "", "in-memory mutation: relpath@@old@@new")
	fs.Parse(args)
	var overlay map[string][]byte
	if *mut != "" {
		parts := strings.SplitN(*mut, "@@", 3)
		p := repoDir + "/" + parts[0]
		data, err := os.ReadFile(p)
		if err != nil {
			panic(err)
		}
		if !strings.Contains(string(data), parts[1]) {
			fmt.Println("mutation pattern not found")
			os.Exit(2)
		}
		overlay = map[string][]byte{p: []byte(strings.Replace(string(data), parts[1], parts[2], 1))}
	}
	out, eng, err := runVerify(*prop, *fn, *timeout, overlay)
	if err != nil {
		fmt.Println("ERROR:", err)
		os.Exit(2)
	}
	nOK, nFail := 0, 0
	for _, f := range out.funcs {
		fmt.Printf("== %s", f.Name)
		if f.EngineErr != "" {
			fmt.Printf("  ENGINE-ERROR: %s", f.EngineErr)
		}
		fmt.Println()
		for _, a := range f.Abstracted {
			fmt.Println("   abstracted:", a)
		}
		if *verbose {
			for _, a := range f.Assumptions {
				fmt.Println("   assume:", a)
			}
		}
	}
	for _, e := range out.errs {
		fmt.Println("ERROR:", e)
	}
	for _, o := range out.obls {
		if o.Cover {
			if o.Status == "unreachable" || *verbose {
				fmt.Printf("   [%s] %s (%s) %s\n", o.Status, o.Name, o.Desc, o.Pos)
			}
			continue
		}
		if o.Status == "discharged" {
			nOK++
			if *verbose {
				fmt.Printf("   [ok   %-6s %.2fs] %s  %s\n", o.Result.Solver, o.Result.Time, o.Name, o.Clause)
			}
		} else {
			nFail++
			fmt.Printf("   [FAIL %s %s %.2fs] %s at %s: %s %s\n", o.Result.Status, o.Result.Solver, o.Result.Time, o.Name, o.Pos, o.Desc, o.Clause)
			if o.Result.Status == "error" {
				fmt.Println("      ", strings.SplitN(o.Result.Raw, "\n", 3)[0])
			}
		}
		if *dump != "" && strings.Contains(o.Name, *dump) {
			os.WriteFile("/tmp/dump.smt2", []byte(eng.queryFor(o, true)), 0o644)
			fmt.Println("   dumped to /tmp/dump.smt2")
		}
	}
	fmt.Printf("obligations: %d discharged, %d failed; functions %d, lemmas %d; wall %.1fs solver %.1fs\n", nOK, nFail, len(out.funcs), out.lemmas, out.wall, out.solverT)
}


// patchOverlay applies a unified diff to copies of the files it touches and returns them as a go/packages overlay
// (the repository itself is not modified).
func patchOverlay(patchFile string) (map[string][]byte, error) {
	data, err := os.ReadFile(patchFile)
	if err != nil {
		return nil, err
	}
	tmp, err := os.MkdirTemp("", "govc-seed-")
	if err != nil {
		return nil, err
	}
	defer os.RemoveAll(tmp)
	var files []string
	for _, l := range strings.Split(string(data), "\n") {
		for _, pre := range []string{"+++ b/", "--- a/"} {
			if strings.HasPrefix(l, pre) {
				f := strings.TrimSpace(strings.TrimPrefix(l, pre))
				if i := strings.IndexByte(f, '\t'); i >= 0 {
					f = f[:i]
				}
				files = append(files, f)
			}
		}
	}
	seen := map[string]bool{}
	for _, f := range files {
		if seen[f] {
			continue
		}
		seen[f] = true
		os.MkdirAll(filepath.Dir(filepath.Join(tmp, f)), 0o755)
		if src, err := os.ReadFile(filepath.Join(repoDir, f)); err == nil {
			os.WriteFile(filepath.Join(tmp, f), src, 0o644)
		}
	}
	cmd := exec.Command("patch", "-p1", "-s", "-d", tmp, "-i", patchFile)
	if out, err := cmd.CombinedOutput(); err != nil {
		return nil, fmt.Errorf("patch failed: %v: %s", err, out)
	}
	ov := map[string][]byte{}
	for f := range seen {
		if b, err := os.ReadFile(filepath.Join(tmp, f)); err == nil {
			ov[filepath.Join(repoDir, f)] = b
		}
	}
	return ov, nil
}

func cmdSeed(args []string) int {
	if len(args) < 2 {
		fmt.Fprintln(os.Stderr, "usage: govc seed <dir> <property> [timeout]")
		return 2
	}
	pf := args[0]
	if st, err := os.Stat(pf); err == nil && st.IsDir() {
		pf = filepath.Join(pf, "patch.diff")
	}
	pf, _ = filepath.Abs(pf)
	ov, err := patchOverlay(pf)
	if err != nil {
		fmt.Println("ERROR:", err)
		return 2
	}
	timeout := 10
	if len(args) > 2 {
		fmt.Sscanf(args[2], "%d", &timeout)
	}
	out, _, err := runVerify(args[1], "", timeout, ov)
	if err != nil {
		fmt.Println("DETECTED (load error):", err)
		return 1
	}
	known := map[string]bool{}
	for _, kf := range loadKnownFindings() {
		if kf.Kind == "finding" {
			known[kf.Obligation] = true
		}
	}
	n := 0
	for _, f := range out.funcs {
		if f.EngineErr != "" {
			n++
			fmt.Printf("  FAIL %s: %s\n", f.Name, f.EngineErr)
		}
	}
	for _, o := range out.obls {
		if !o.Cover && o.Status != "discharged" {
			if known[o.Name] {
				continue // a listed known finding of the unchanged tree, not an effect of the seeded change
			}
			n++
			fmt.Printf("  FAIL %s [%s] %s\n", o.Name, o.Result.Status, o.Clause)
		}
	}
	if n > 0 {
		fmt.Printf("DETECTED %s by %s: %d failing obligations\n", filepath.Base(filepath.Dir(pf)), args[1], n)
		return 1
	}
	fmt.Printf("SILENT %s under %s\n", filepath.Base(filepath.Dir(pf)), args[1])
	return 0
}
