package main

import (
	"bytes"
	"context"
	"fmt"
	"os"
	"os/exec"
	"path/filepath"
	"strings"
	"sync"
	"time"
)

type SolveResult struct {
	Status string // unsat | sat | unknown | timeout | error
	Solver string
	Time   float64
	Model  string
	Raw    string
}

type solverSpec struct {
	name string
	argv func(file string, timeoutS int) []string
}

var solvers = []solverSpec{
	{"z3new", func(f string, t int) []string { return []string{"z3-new", fmt.Sprintf("-T:%d", t), f} }},
	{"z3", func(f string, t int) []string { return []string{"z3", fmt.Sprintf("-T:%d", t), f} }},
	{"cvc5", func(f string, t int) []string {
		return []string{"cvc5", fmt.Sprintf("--tlimit=%d", t*1000), "--lang=smt2", f}
	}},
}

var scratchDir string
var scratchOnce sync.Once

func getScratch() string {
	scratchOnce.Do(func() {
		d, err := os.MkdirTemp("", "govc-")
		if err != nil {
			panic(err)
		}
		scratchDir = d
	})
	return scratchDir
}

func cleanupScratch() {
	if scratchDir != "" {
		os.RemoveAll(scratchDir)
	}
}

var queryCounter int
var queryMu sync.Mutex

// solve races the installed solvers on one query. A definite answer (sat/unsat) from any solver wins.
func solve(query string, timeoutS int, only string) SolveResult {
	queryMu.Lock()
	queryCounter++
	n := queryCounter
	queryMu.Unlock()
	file := filepath.Join(getScratch(), fmt.Sprintf("q%d.smt2", n))
	if err := os.WriteFile(file, []byte(query), 0o644); err != nil {
		return SolveResult{Status: "error", Raw: err.Error()}
	}
	defer os.Remove(file)
	ctx, cancel := context.WithTimeout(context.Background(), time.Duration(timeoutS+2)*time.Second)
	defer cancel()
	type res struct {
		r SolveResult
	}
	ch := make(chan SolveResult, len(solvers))
	started := 0
	for _, s := range solvers {
		if only != "" && s.name != only {
			continue
		}
		started++
		go func(s solverSpec) {
			t0 := time.Now()
			argv := s.argv(file, timeoutS)
			cmd := exec.CommandContext(ctx, argv[0], argv[1:]...)
			var out bytes.Buffer
			cmd.Stdout = &out
			cmd.Stderr = &out
			_ = cmd.Run()
			txt := out.String()
			first := strings.TrimSpace(strings.SplitN(txt, "\n", 2)[0])
			st := "unknown"
			switch {
			case first == "unsat":
				st = "unsat"
			case first == "sat":
				st = "sat"
			case first == "timeout" || ctx.Err() != nil:
				st = "timeout"
			case strings.HasPrefix(first, "(error") || strings.Contains(first, "rror"):
				st = "error"
			}
			r := SolveResult{Status: st, Solver: s.name, Time: time.Since(t0).Seconds(), Raw: txt}
			if st == "sat" {
				if i := strings.Index(txt, "\n"); i >= 0 {
					r.Model = txt[i+1:]
				}
			}
			ch <- r
		}(s)
	}
	var last SolveResult
	var errs []string
	for i := 0; i < started; i++ {
		r := <-ch
		if r.Status == "unsat" || r.Status == "sat" {
			cancel()
			return r
		}
		if r.Status == "error" {
			errs = append(errs, r.Solver+": "+strings.SplitN(r.Raw, "\n", 2)[0])
		}
		if last.Status == "" || (last.Status == "error" && r.Status != "error") || (r.Status == "unknown" && last.Status == "timeout") {
			last = r
		}
	}
	if len(errs) == started {
		last.Status = "error"
		last.Raw = strings.Join(errs, "\n")
	}
	return last
}
