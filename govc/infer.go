package main

import "go/types"

// inferSig instantiates a generic function signature from the static types of the argument values
// (structural matching of parameter types against argument types; enough for spec expressions).
func inferSig(sig *types.Signature, args []Val) *types.Signature {
	tps := sig.TypeParams()
	if tps == nil || tps.Len() == 0 {
		return sig
	}
	bindings := map[*types.TypeParam]types.Type{}
	var unify func(p, a types.Type)
	unify = func(p, a types.Type) {
		if p == nil || a == nil {
			return
		}
		p = types.Unalias(p)
		a = types.Unalias(a)
		switch pt := p.(type) {
		case *types.TypeParam:
			if _, ok := bindings[pt]; !ok {
				bindings[pt] = a
			}
		case *types.Slice:
			if at, ok := a.Underlying().(*types.Slice); ok {
				unify(pt.Elem(), at.Elem())
			}
		case *types.Array:
			if at, ok := a.Underlying().(*types.Array); ok {
				unify(pt.Elem(), at.Elem())
			}
		case *types.Pointer:
			if at, ok := a.Underlying().(*types.Pointer); ok {
				unify(pt.Elem(), at.Elem())
			}
		case *types.Map:
			if at, ok := a.Underlying().(*types.Map); ok {
				unify(pt.Key(), at.Key())
				unify(pt.Elem(), at.Elem())
			}
		case *types.Named:
			if at, ok := a.(*types.Named); ok && pt.TypeArgs() != nil && at.TypeArgs() != nil &&
				pt.Origin() == at.Origin() && pt.TypeArgs().Len() == at.TypeArgs().Len() {
				for i := 0; i < pt.TypeArgs().Len(); i++ {
					unify(pt.TypeArgs().At(i), at.TypeArgs().At(i))
				}
			}
		}
	}
	n := sig.Params().Len()
	for i, a := range args {
		if a.Typ == nil {
			continue
		}
		var pt types.Type
		if sig.Variadic() && i >= n-1 {
			last := sig.Params().At(n - 1).Type()
			if sl, ok := last.(*types.Slice); ok {
				// a slice argument stands for the spread form f(xs...)
				_, elemIsSliceParam := coreOfParam(sl.Elem()).(*types.Slice)
				if _, isSl := a.Typ.Underlying().(*types.Slice); isSl && !elemIsSliceParam {
					pt = last
				} else {
					pt = sl.Elem()
				}
			}
		} else if i < n {
			pt = sig.Params().At(i).Type()
		}
		unify(pt, a.Typ)
	}
	// type parameters that occur only in the constraint of another one (slices.Concat[S ~[]E, E any]): core type inference
	for i := 0; i < tps.Len(); i++ {
		if b, ok := bindings[tps.At(i)]; ok {
			if core := coreOfParam(tps.At(i)); core != nil {
				unify(core, b)
			}
		}
	}
	targs := make([]types.Type, tps.Len())
	for i := 0; i < tps.Len(); i++ {
		t, ok := bindings[tps.At(i)]
		if !ok {
			return sig
		}
		targs[i] = t
	}
	inst, err := types.Instantiate(nil, sig, targs, false)
	if err != nil {
		return sig
	}
	if s, ok := inst.(*types.Signature); ok {
		return s
	}
	return sig
}

// coreOfParam returns the single tilde/exact term of a type parameter's constraint (S ~[]E gives []E), or nil.
func coreOfParam(t types.Type) types.Type {
	tp, ok := types.Unalias(t).(*types.TypeParam)
	if !ok {
		return nil
	}
	iface, ok := tp.Constraint().Underlying().(*types.Interface)
	if !ok {
		return nil
	}
	for i := 0; i < iface.NumEmbeddeds(); i++ {
		switch u := iface.EmbeddedType(i).(type) {
		case *types.Union:
			if u.Len() == 1 {
				return u.Term(0).Type()
			}
		}
	}
	return nil
}
