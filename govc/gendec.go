package main

import (
	"bytes"
	"fmt"
	"go/ast"
	"go/parser"
	"go/printer"
	"go/token"
	"os"
	"path/filepath"
	"sort"
	"strings"
)

// gen-decoders: mechanical instantiation of the decoder schema (property C12, clause "decode => constructed").
// For every method `UnmarshalCBOR(data []byte) error` of the shape
//
//	dto, err := serde.UnmarshalCBOR[*T](data) ; ... ; v, err := NewX(<exprs over dto>) ; if err != nil { return ... }
//
// it prints a contract saying that the decoder returns nil only if NewX, applied to the decoded fields,
// returned a nil error; constructors without a contract of their own get an assumed "purefn" contract
// (they are deterministic functions of their arguments), which is listed as an assumption.
func cmdGenDecoders(root string) {
	fset := token.NewFileSet()
	type item struct{ recv, dtoType, ctor, args, file string }
	perPkg := map[string][]item{}
	ctors := map[string]map[string]bool{} // pkgdir -> ctor names (local only)
	filepath.Walk(filepath.Join(root, "pkg"), func(p string, info os.FileInfo, err error) error {
		if err != nil || info.IsDir() || !strings.HasSuffix(p, ".go") || strings.HasSuffix(p, "_test.go") || strings.HasPrefix(info.Name(), "zz_") {
			return nil
		}
		f, err := parser.ParseFile(fset, p, nil, 0)
		if err != nil {
			return nil
		}
		for _, d := range f.Decls {
			fd, ok := d.(*ast.FuncDecl)
			if !ok || fd.Name.Name != "UnmarshalCBOR" || fd.Recv == nil || fd.Body == nil || len(fd.Body.List) < 2 {
				continue
			}
			// receiver key
			rt := fd.Recv.List[0].Type
			ptr := false
			if s, ok := rt.(*ast.StarExpr); ok {
				rt = s.X
				ptr = true
			}
			switch x := rt.(type) {
			case *ast.IndexExpr:
				rt = x.X
			case *ast.IndexListExpr:
				rt = x.X
			}
			id, ok := rt.(*ast.Ident)
			if !ok {
				continue
			}
			recv := id.Name
			if ptr {
				recv = "(*" + recv + ")"
			}
			// first statement: dto, err := serde.UnmarshalCBOR[*T](data)
			as, ok := fd.Body.List[0].(*ast.AssignStmt)
			if !ok || len(as.Lhs) != 2 || len(as.Rhs) != 1 {
				continue
			}
			dtoName, ok := as.Lhs[0].(*ast.Ident)
			if !ok {
				continue
			}
			call, ok := as.Rhs[0].(*ast.CallExpr)
			if !ok {
				continue
			}
			ix, ok := call.Fun.(*ast.IndexExpr)
			if !ok {
				continue
			}
			if se, ok := ix.X.(*ast.SelectorExpr); !ok || se.Sel.Name != "UnmarshalCBOR" {
				continue
			}
			dtoT := ix.Index
			isPtr := false
			if s, ok := dtoT.(*ast.StarExpr); ok {
				dtoT = s.X
				isPtr = true
			}
			switch x := dtoT.(type) {
			case *ast.IndexExpr:
				dtoT = x.X
			case *ast.IndexListExpr:
				dtoT = x.X
			}
			dtoId, ok := dtoT.(*ast.Ident)
			if !ok || !isPtr {
				continue
			}
			// find constructor call: X, err := NewY(args) directly followed by if err != nil { return }
			for i := 1; i < len(fd.Body.List)-1; i++ {
				a2, ok := fd.Body.List[i].(*ast.AssignStmt)
				if !ok || len(a2.Rhs) != 1 || len(a2.Lhs) != 2 {
					continue
				}
				c2, ok := a2.Rhs[0].(*ast.CallExpr)
				if !ok || c2.Ellipsis.IsValid() {
					continue
				}
				fn := c2.Fun
				if x, ok := fn.(*ast.IndexExpr); ok {
					fn = x.X
				}
				name := ""
				local := false
				switch x := fn.(type) {
				case *ast.Ident:
					name = x.Name
					local = true
				case *ast.SelectorExpr:
					if pk, ok := x.X.(*ast.Ident); ok {
						name = pk.Name + "." + x.Sel.Name
					}
				}
				base := name
				if k := strings.LastIndex(base, "."); k >= 0 {
					base = base[k+1:]
				}
				if !strings.HasPrefix(base, "New") {
					continue
				}
				ifs, ok := fd.Body.List[i+1].(*ast.IfStmt)
				if !ok {
					continue
				}
				var cb bytes.Buffer
				printer.Fprint(&cb, fset, ifs.Cond)
				if cb.String() != "err != nil" {
					continue
				}
				// all args must mention only the dto variable (and literals)
				okArgs := true
				var args []string
				for _, a := range c2.Args {
					ast.Inspect(a, func(n ast.Node) bool {
						if idn, ok := n.(*ast.Ident); ok && idn.Obj != nil && idn.Name != dtoName.Name {
							okArgs = false
						}
						if _, ok := n.(*ast.FuncLit); ok {
							okArgs = false
						}
						return true
					})
					var ab bytes.Buffer
					printer.Fprint(&ab, fset, a)
					args = append(args, strings.ReplaceAll(ab.String(), dtoName.Name+".", "dto."))
				}
				if !okArgs {
					break
				}
				dir := filepath.Dir(p)
				perPkg[dir] = append(perPkg[dir], item{recv, dtoId.Name, name, strings.Join(args, ", "), filepath.Base(p)})
				if local {
					if ctors[dir] == nil {
						ctors[dir] = map[string]bool{}
					}
					ctors[dir][name] = true
				}
				break
			}
		}
		return nil
	})
	var dirs []string
	for d := range perPkg {
		dirs = append(dirs, d)
	}
	sort.Strings(dirs)
	for _, d := range dirs {
		rel, _ := filepath.Rel(root, d)
		fmt.Printf("### %s\n", rel)
		for _, it := range perPkg[d] {
			fmt.Printf("//@ func %s.UnmarshalCBOR\n//@   property C12\n//@   let dto = as(res(serde.UnmarshalCBOR(data), 0), *%s)\n//@   ensures err == nil ==> res(%s(%s), 1) == nil\n\n", it.recv, it.dtoType, it.ctor, it.args)
		}
		var cs []string
		for c := range ctors[d] {
			cs = append(cs, c)
		}
		sort.Strings(cs)
		for _, c := range cs {
			fmt.Printf("//@ ctor %s\n", c)
		}
	}
}
