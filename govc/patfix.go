package main

// notInPattern: connectives and comparisons may not occur in SMT patterns at all (not even in ground subterms)
func notInPattern(op string) bool {
	switch op {
	case "ite", "and", "or", "not", "=>", "=", "<", "<=", ">", ">=", "forall", "exists":
		return true
	}
	return false
}
