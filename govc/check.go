package main

import (
	"encoding/json"
	"flag"
	"fmt"
	"os"
	"os/exec"
	"path/filepath"
	"regexp"
	"sort"
	"strconv"
	"strings"
	"time"
)

type knownFinding struct {
	Kind       string // finding | fixed
	Property   string
	Obligation string
	Text       string
}

func loadKnownFindings() []knownFinding {
	var out []knownFinding
	data, err := os.ReadFile(filepath.Join(verifDir, "known_findings.txt"))
	if err != nil {
		return nil
	}
	for _, line := range strings.Split(string(data), "\n") {
		line = strings.TrimSpace(line)
		if line == "" || strings.HasPrefix(line, "#") {
			continue
		}
		kf := knownFinding{}
		if strings.HasPrefix(line, "finding:") {
			kf.Kind = "finding"
			line = strings.TrimSpace(strings.TrimPrefix(line, "finding:"))
		} else if strings.HasPrefix(line, "fixed:") {
			kf.Kind = "fixed"
			line = strings.TrimSpace(strings.TrimPrefix(line, "fixed:"))
		} else {
			continue
		}
		for _, f := range strings.Fields(line) {
			if strings.HasPrefix(f, "property=") {
				kf.Property = strings.TrimPrefix(f, "property=")
			}
			if strings.HasPrefix(f, "obligation=") {
				kf.Obligation = strings.TrimPrefix(f, "obligation=")
			}
		}
		kf.Text = line
		out = append(out, kf)
	}
	return out
}

var nameSan = regexp.MustCompile(`[^A-Za-z0-9_.#-]+`)

type evidence struct {
	PropertyID  string         `json:"property_id"`
	Tier        string         `json:"tier"`
	Seed        int            `json:"seed"`
	Level       string         `json:"level"`
	Coverage    map[string]any `json:"coverage"`
	Assumptions []string       `json:"assumptions"`
	WallS       float64        `json:"wall_s"`
	Violations  int            `json:"violations"`
}

func cmdCheck(args []string) int {
	fs := flag.NewFlagSet("check", flag.ExitOnError)
	tier := fs.String("tier", "quick", "quick|thorough")
	replay := fs.String("replay", "", "replay file to re-run")
	if len(args) < 1 {
		fmt.Fprintln(os.Stderr, "usage: govc check <property> [--tier quick|thorough]")
		return 2
	}
	prop := args[0]
	fs.Parse(args[1:])
	if t := os.Getenv("VERIF_TIER"); t != "" && *tier == "quick" {
		*tier = t
	}
	seed := 0
	if s := os.Getenv("VERIF_SEED"); s != "" {
		seed, _ = strconv.Atoi(s)
	}
	if *replay != "" {
		return replayFile(*replay)
	}
	t0 := time.Now()
	// per-obligation solver budget (every claimed obligation discharges in a fraction of it on an idle machine; the
	// margin is for loaded machines: a slow proof must not turn into an alarm)
	timeout := 15
	if *tier == "thorough" {
		timeout = 40
	}
	out, eng, err := runVerify(prop, "", timeout, nil)
	if err != nil {
		fmt.Println("ENGINE-ERROR:", err)
		// a tree that no longer loads cannot be verified: report as violation of the claimed property
		path := writeReplay(prop, "load", "engine could not load or parse: "+err.Error(), "")
		fmt.Printf("VIOLATION property=%s replay=%s no-failing-input-found\n", prop, path)
		return 1
	}
	kfs := loadKnownFindings()
	isKnown := func(name string) *knownFinding {
		for i := range kfs {
			if kfs[i].Kind == "finding" && kfs[i].Property == prop && kfs[i].Obligation == name {
				return &kfs[i]
			}
		}
		return nil
	}
	violations := 0
	known := 0
	total, discharged := 0, 0
	byBackend := map[string]int{}
	var samples []any
	var unreachable []string
	var failedNames []string
	knownPrinted := map[string]bool{}
	for _, o := range out.obls {
		if o.Cover {
			if o.Status == "unreachable" {
				unreachable = append(unreachable, o.Name+" ("+o.Desc+" at "+o.Pos+")")
			}
			continue
		}
		if kf := isKnown(o.Name); kf != nil {
			// a listed finding: reported, never counted as proved
			if o.Status != "discharged" {
				if !knownPrinted[o.Name] {
					fmt.Printf("KNOWN-FINDING: %s\n", knownText(prop, kf.Text))
					knownPrinted[o.Name] = true
				}
				known++
				continue
			}
		}
		total++
		if o.Status == "discharged" {
			discharged++
			byBackend[o.Result.Solver]++
			if len(samples) < 6 {
				samples = append(samples, map[string]any{"obligation": o.Name, "kind": o.Kind, "at": o.Pos, "clause": o.Clause, "solver": o.Result.Solver, "time_s": round3(o.Result.Time)})
			}
			continue
		}
		violations++
		failedNames = append(failedNames, o.Name)
		path, concrete := reportViolation(eng, prop, o)
		suffix := ""
		if !concrete {
			suffix = " no-failing-input-found"
		}
		fmt.Printf("VIOLATION property=%s replay=%s%s\n", prop, path, suffix)
		fmt.Printf("  obligation %s (%s) at %s: %s [%s]\n", o.Name, o.Desc, o.Pos, o.Clause, o.Result.Status)
	}
	var funcs []string
	assume := map[string]bool{}
	var abstracted, unproved, free []string
	for _, f := range out.funcs {
		funcs = append(funcs, f.Name)
		for _, a := range f.Assumptions {
			assume[a] = true
		}
		for _, a := range f.Abstracted {
			abstracted = append(abstracted, f.Name+": "+a)
		}
		for _, a := range f.Unproved {
			unproved = append(unproved, f.Name+": "+a)
		}
		for _, a := range f.FreeClauses {
			free = append(free, f.Name+": "+a)
		}
		if f.EngineErr != "" {
			name := f.Name + "#engine#1"
			if kf := isKnown(name); kf != nil {
				fmt.Printf("KNOWN-FINDING: %s\n", knownText(prop, kf.Text))
				known++
				continue
			}
			violations++
			total++
			failedNames = append(failedNames, name)
			path := writeReplay(prop, name, "the verification conditions of "+f.Name+" could not be generated: "+f.EngineErr+"\n(obligations that were discharged on the unchanged tree can no longer be established)", "")
			fmt.Printf("VIOLATION property=%s replay=%s no-failing-input-found\n", prop, path)
			fmt.Printf("  %s: %s\n", f.Name, f.EngineErr)
		}
	}
	for _, e := range out.errs {
		violations++
		total++
		path := writeReplay(prop, "lemma-error", e, "")
		fmt.Printf("VIOLATION property=%s replay=%s no-failing-input-found\n", prop, path)
	}
	// vacuity: every function must have a satisfiable precondition and a reachable return
	vacuous := false
	for _, f := range out.funcs {
		pre, ret, any := false, false, false
		for _, o := range f.Obls {
			if !o.Cover {
				continue
			}
			any = true
			if o.Desc == "precondition satisfiable" && o.Status == "reachable" {
				pre = true
			}
			if o.Desc == "return reachable" && o.Status == "reachable" {
				ret = true
			}
		}
		if any && (!pre || !ret) && f.EngineErr == "" {
			fmt.Printf("ENGINE-ERROR vacuous: %s (precondition satisfiable=%v, some return reachable=%v)\n", f.Name, pre, ret)
			vacuous = true
		}
	}
	if total == 0 {
		fmt.Printf("ENGINE-ERROR: no obligations generated for %s\n", prop)
		return 2
	}
	var assumptions []string
	for a := range assume {
		assumptions = append(assumptions, a)
	}
	sort.Strings(assumptions)
	// axioms / assumed contracts used
	var assumedContracts []string
	for k, c := range eng.contracts.Funcs {
		if c.Assumed {
			assumedContracts = append(assumedContracts, k)
		}
	}
	sort.Strings(assumedContracts)
	var axioms []string
	for _, a := range eng.contracts.Axioms {
		axioms = append(axioms, a.Theory+"/"+a.Name)
	}
	sort.Strings(axioms)
	selftest := map[string]any{}
	leanInfo := map[string]any{}
	if *tier == "thorough" {
		selftest = runSelftest(prop)
	}
	// pure-mathematics lemmas proved in Lean 4 / Mathlib and imported by contracts as named axioms:
	// re-checked by the Lean kernel in the thorough tier (loading Mathlib takes from 10 s to minutes).
	if files := leanFilesFor(prop); len(files) > 0 {
		leanInfo["files"] = files
		if *tier == "thorough" {
			for _, f := range files {
				total++
				tl := time.Now()
				cmd := exec.Command("lean", f)
				cmd.Dir = filepath.Join(verifDir, "lean")
				outB, err := cmd.CombinedOutput()
				if err == nil && !strings.Contains(string(outB), "error") {
					discharged++
					byBackend["lean"]++
					samples = append(samples, map[string]any{"obligation": "lean." + f, "kind": "lemma", "solver": "lean4+mathlib", "time_s": round3(time.Since(tl).Seconds())})
				} else {
					violations++
					failedNames = append(failedNames, "lean."+f)
					path := writeReplay(prop, "lean."+f, "Lean rejected the lemma file:\n"+firstLines(string(outB), 30), "")
					fmt.Printf("VIOLATION property=%s replay=%s no-failing-input-found\n", prop, path)
				}
			}
			leanInfo["rechecked"] = true
		} else {
			leanInfo["rechecked"] = false
			leanInfo["note"] = "axioms proved in Lean are re-checked only in the thorough tier"
		}
	}
	ev := evidence{
		PropertyID: prop, Tier: *tier, Seed: seed, Level: "proof",
		Coverage: map[string]any{
			"obligations":              total,
			"discharged":               discharged,
			"checker_cmd":              fmt.Sprintf("/verif/check %s --tier %s", prop, *tier),
			"trusted_base":             trustedBase(),
			"samples":                  samples,
			"functions_under_contract": funcs,
			"lemmas":                   out.lemmas,
			"by_backend":               byBackend,
			"solver_time_s":            round3(out.solverT),
			"abstracted":               abstracted,
			"unproved_clauses":         unproved,
			"free_clauses_assumed":     free,
			"assumed_contracts":        assumedContracts,
			"axioms":                   axioms,
			"unreachable_paths":        unreachable,
			"known_findings_reported":  known,
			"failed_obligations":       failedNames,
			"selftest":                 selftest,
			"lean_lemmas":              leanInfo,
			"per_obligation_timeout_s": timeout,
		},
		Assumptions: assumptions,
		WallS:       round3(time.Since(t0).Seconds()),
		Violations:  violations,
	}
	os.MkdirAll(filepath.Join(verifDir, "evidence"), 0o755)
	data, _ := json.MarshalIndent(ev, "", " ")
	os.WriteFile(filepath.Join(verifDir, "evidence", prop+".json"), data, 0o644)
	fmt.Printf("%s: %d obligations, %d discharged, %d violations, %d known findings, %d functions, %d lemmas, %.1fs\n", prop, total, discharged, violations, known, len(out.funcs), out.lemmas, time.Since(t0).Seconds())
	if violations > 0 {
		return 1
	}
	if vacuous {
		return 2
	}
	return 0
}

func round3(f float64) float64 { return float64(int(f*1000+0.5)) / 1000 }

func trustedBase() []string {
	return []string{
		"govc VC generator (this repository, /verif/govc): translation of the Go AST to verification conditions",
		"z3 4.8.12, z3 5.1.0, cvc5 1.0.3 (an obligation counts as discharged when one of them answers unsat)",
		"go/types type information for the purego,verif build of /repo",
		"assumed contracts in /verif/specs/*.spec for code outside /repo (errs-go, stdlib, saferith, cbor)",
		"uncontracted callees are modelled as pure functions of their arguments (each is listed under assumptions)",
		"slices and maps have value semantics in the model (aliasing between slice headers is not modelled)",
		"64-bit machine arithmetic is treated as mathematical integer arithmetic (8/16/32-bit arithmetic wraps)",
	}
}

func writeReplay(prop, name, body, query string) string {
	dir := filepath.Join(verifDir, "replays")
	os.MkdirAll(dir, 0o755)
	path := filepath.Join(dir, prop+"-"+nameSan.ReplaceAllString(name, "_")+".txt")
	txt := fmt.Sprintf("property: %s\nobligation: %s\n%s\n", prop, name, body)
	if query != "" {
		txt += "\n--- SMT query ---\n" + query
	}
	os.WriteFile(path, []byte(txt), 0o644)
	return path
}

// reportViolation writes the replay file for a failed obligation; it tries to obtain a model and to replay it.
func reportViolation(eng *Engine, prop string, o *Obligation) (string, bool) {
	q := eng.queryFor(o, true)
	body := fmt.Sprintf("function: %s\nkind: %s\nat: %s\nclause: %s\nsolver verdict: %s (%s, %.2fs)\n", o.Func, o.Kind, o.Pos, o.Clause, o.Result.Status, o.Result.Solver, o.Result.Time)
	concrete := false
	model := ""
	if o.Result.Status == "sat" {
		r := solve(q, 20, o.Result.Solver)
		if r.Status == "sat" {
			model = r.Model
		}
	}
	if model != "" {
		body += "\n--- solver counterexample (model of the negated obligation) ---\n" + trimModel(model) + "\n"
		ok, txt := tryConcreteReplay(eng, o, model)
		body += "\n--- replay on the real code ---\n" + txt + "\n"
		concrete = ok
	} else {
		body += "\nno model: the solver could not decide the obligation (" + o.Result.Status + "); solver output:\n" + firstLines(o.Result.Raw, 5) + "\n"
	}
	return writeReplay(prop, o.Name, body, q), concrete
}

func firstLines(s string, n int) string {
	ls := strings.Split(s, "\n")
	if len(ls) > n {
		ls = ls[:n]
	}
	return strings.Join(ls, "\n")
}

func trimModel(m string) string {
	if len(m) > 20000 {
		return m[:20000] + "\n... (truncated)"
	}
	return m
}

func replayFile(path string) int {
	data, err := os.ReadFile(path)
	if err != nil {
		fmt.Println("cannot read replay file:", err)
		return 2
	}
	fmt.Println(string(data[:min(len(data), 4000)]))
	// re-run the stored SMT query
	if i := strings.Index(string(data), "--- SMT query ---\n"); i >= 0 {
		q := string(data[i+len("--- SMT query ---\n"):])
		r := solve(q, 30, "")
		fmt.Printf("re-run of the stored query: %s (%s)\n", r.Status, r.Solver)
		if r.Status == "unsat" {
			return 0
		}
		return 1
	}
	return 1
}

// leanFilesFor reads /verif/lean/index.txt ("<property> <file.lean> <theorem>") and returns the files of a property.
func leanFilesFor(prop string) []string {
	data, err := os.ReadFile(filepath.Join(verifDir, "lean", "index.txt"))
	if err != nil {
		return nil
	}
	var out []string
	for _, line := range strings.Split(string(data), "\n") {
		f := strings.Fields(line)
		if len(f) >= 2 && f[0] == prop {
			out = append(out, f[1])
		}
	}
	return out
}

// knownText: "property=<id> <what fails>" (the file's entries already start with the property field)
func knownText(prop, text string) string {
	if strings.HasPrefix(text, "property=") {
		return text
	}
	return "property=" + prop + " " + text
}
