package main

import (
	"fmt"
	"go/ast"
	"go/token"
	"go/types"
	"sort"
	"strings"

	"golang.org/x/tools/go/packages"
)

// ---------------------------------------------------------------- values, locations, state

type Val struct {
	T     *Term
	Typ   types.Type
	Loc   *Loc
	Tuple []Val
	Fn    *ast.FuncLit
	FnObj *types.Func // function value (method value / func ident), for calls through contracts
	Recv  *Val        // bound receiver for method values
	TypeV types.Type  // the value denotes a type (conversion target)
	Pkg   *types.Package
}

type Loc struct {
	Kind   string // local, field, elem, mem
	Obj    types.Object
	Base   *Term  // field: ref ; mem: address
	Key    string // field heap key / mem key
	Sort   *Sort  // sort of stored value
	Parent *Loc   // elem: location of the slice/array
	Index  *Term
	Typ    types.Type // type of the stored value
}

func (l *Loc) id() string {
	switch l.Kind {
	case "local":
		return fmt.Sprintf("local:%p", l.Obj)
	case "field":
		return "field:" + l.Key + ":" + l.Base.String()
	case "elem":
		return "elem:" + l.Parent.id() + ":" + l.Index.String()
	case "mem":
		return "mem:" + l.Key + ":" + l.Base.String()
	}
	return "?"
}

type pcNode struct {
	parent *pcNode
	fact   *Term
	depth  int
}

func (p *pcNode) push(f *Term) *pcNode {
	d := 0
	if p != nil {
		d = p.depth
	}
	return &pcNode{parent: p, fact: f, depth: d + 1}
}

func (p *pcNode) list() []*Term {
	var out []*Term
	for n := p; n != nil; n = n.parent {
		out = append(out, n.fact)
	}
	for i, j := 0, len(out)-1; i < j; i, j = i+1, j-1 {
		out[i], out[j] = out[j], out[i]
	}
	return out
}

func lca(a, b *pcNode) *pcNode {
	da, db := 0, 0
	if a != nil {
		da = a.depth
	}
	if b != nil {
		db = b.depth
	}
	for da > db {
		a = a.parent
		da--
	}
	for db > da {
		b = b.parent
		db--
	}
	for a != b {
		a = a.parent
		b = b.parent
	}
	return a
}

type State struct {
	env   map[types.Object]Val
	names map[string]Val // ghost names ($i, lets)
	heap  map[string]*Term
	pc    *pcNode
}

func (s *State) clone() *State {
	n := &State{env: make(map[types.Object]Val, len(s.env)), names: make(map[string]Val, len(s.names)), heap: make(map[string]*Term, len(s.heap)), pc: s.pc}
	for k, v := range s.env {
		n.env[k] = v
	}
	for k, v := range s.names {
		n.names[k] = v
	}
	for k, v := range s.heap {
		n.heap[k] = v
	}
	return n
}

func (s *State) assume(f *Term) {
	if f == nil || f.IsTrue() {
		return
	}
	s.pc = s.pc.push(f)
}

// ---------------------------------------------------------------- obligations

type Obligation struct {
	Name     string
	Func     string
	Kind     string
	Desc     string
	Pos      string
	Assume   []*Term
	Goal     *Term
	Props    []string
	Result   SolveResult
	Status   string // discharged | failed
	Cover    bool   // must NOT be unsat
	Clause   string
	Theories []string
	Retried  bool
}

// ---------------------------------------------------------------- engine

type Engine struct {
	pkgs      map[string]*packages.Package
	contracts *Contracts
	fset      *token.FileSet
	modPath   string
	funcDecls map[string]*funcInfo // key pkg::funckey
	warnings  []string
	overlay   map[string][]byte
	srcCache  map[string][]byte
}

type funcInfo struct {
	pkg  *packages.Package
	decl *ast.FuncDecl
	fn   *types.Func
}

func funcKeyOf(fn *types.Func) (pkgPath, key string) {
	fn = fn.Origin()
	if fn.Pkg() != nil {
		pkgPath = fn.Pkg().Path()
	}
	sig := fn.Type().(*types.Signature)
	if r := sig.Recv(); r != nil {
		t := r.Type()
		ptr := false
		if p, ok := t.(*types.Pointer); ok {
			t = p.Elem()
			ptr = true
		}
		name := "?"
		switch tt := t.(type) {
		case *types.Named:
			name = tt.Obj().Name()
			if tt.Obj().Pkg() != nil {
				pkgPath = tt.Obj().Pkg().Path()
			}
		case *types.Alias:
			name = tt.Obj().Name()
		case *types.Interface:
			name = "interface"
		}
		if _, isIface := t.Underlying().(*types.Interface); isIface {
			return pkgPath, name + "." + fn.Name()
		}
		if ptr {
			return pkgPath, "(*" + name + ")." + fn.Name()
		}
		return pkgPath, name + "." + fn.Name()
	}
	return pkgPath, fn.Name()
}

func (e *Engine) index() {
	e.funcDecls = map[string]*funcInfo{}
	for _, p := range e.pkgs {
		for _, f := range p.Syntax {
			for _, d := range f.Decls {
				fd, ok := d.(*ast.FuncDecl)
				if !ok || fd.Body == nil {
					continue
				}
				obj, _ := p.TypesInfo.Defs[fd.Name].(*types.Func)
				if obj == nil {
					continue
				}
				pp, k := funcKeyOf(obj)
				e.funcDecls[pp+"::"+k] = &funcInfo{pkg: p, decl: fd, fn: obj}
			}
		}
	}
}

func (e *Engine) contractFor(fn *types.Func) *FuncContract {
	pp, k := funcKeyOf(fn)
	if c, ok := e.contracts.Funcs[pp+"::"+k]; ok {
		return c
	}
	// value-receiver contract may be written with or without pointer
	if strings.HasPrefix(k, "(*") {
		alt := strings.Replace(strings.TrimPrefix(k, "(*"), ")", "", 1)
		if c, ok := e.contracts.Funcs[pp+"::"+alt]; ok {
			return c
		}
	}
	return nil
}

// ---------------------------------------------------------------- function context

type FuncCtx struct {
	eng        *Engine
	pkg        *packages.Package
	info       *types.Info
	decl       *ast.FuncDecl
	fn         *types.Func
	sig        *types.Signature
	contract   *FuncContract
	entry      *State
	obls       []*Obligation
	counters   map[string]int
	fresh      int
	binds      map[string]string
	assumed    map[string]bool // assumption notes (pure callees etc.)
	abstracted []string
	resultVars []*types.Var
	resultName []string
	loopSeq    int
	loopKeys   map[string]int
	deferred   []*ast.DeferStmt
	retCount   int
	inlineStack []*inlineFrame // function literals being executed in place
	sliceCopies map[types.Object]types.Object // slice header copied inside a loop from a variable declared outside it
	pendingLabel string      // label of the statement about to be executed (consumed by the loop it labels)
	loopDepthPos []token.Pos // positions of the loops being executed (innermost last)
	appendTarget types.Object // variable the value of the expression being evaluated is assigned to (nil: none / not a plain variable)
	specPos    token.Pos
	curCallee  *calleeCtx // when evaluating a callee's contract
	theories   map[string]bool
	inSpec     bool
	noOblig    int // >0: suppress bounds obligations (spec evaluation)
	extraAx    []*Term
	localsByName map[string][]types.Object
	curArgExprs []ast.Expr
	curRecvExpr ast.Expr
	noName      int
	inTypeInv   bool
	closures    *closureInfo
}

type calleeCtx struct {
	fn    *types.Func
	names map[string]Val
	old   *State
	pkg   *types.Package
}

func (fc *FuncCtx) freshName(base string) string {
	fc.fresh++
	base = strings.Map(func(r rune) rune {
		if r >= 'a' && r <= 'z' || r >= 'A' && r <= 'Z' || r >= '0' && r <= '9' || r == '_' || r == '.' || r == '$' {
			return r
		}
		return '_'
	}, base)
	return fmt.Sprintf("%s!%d", base, fc.fresh)
}

func (fc *FuncCtx) freshConst(base string, s *Sort) *Term {
	return Const(fc.freshName(base), s)
}

func (fc *FuncCtx) note(a string) {
	if fc.assumed == nil {
		fc.assumed = map[string]bool{}
	}
	fc.assumed[a] = true
}

func (fc *FuncCtx) abstract(why string, pos token.Pos) {
	fc.abstracted = append(fc.abstracted, fmt.Sprintf("%s at %s", why, fc.posStr(pos)))
}

func (fc *FuncCtx) posStr(p token.Pos) string {
	if !p.IsValid() {
		return "-"
	}
	ps := fc.pkg.Fset.Position(p)
	f := ps.Filename
	if i := strings.Index(f, "/pkg/"); i >= 0 {
		f = f[i+1:]
	}
	return fmt.Sprintf("%s:%d", f, ps.Line)
}

func (fc *FuncCtx) funcName() string {
	pp, k := funcKeyOf(fc.fn)
	short := pp
	if i := strings.Index(pp, "/pkg/"); i >= 0 {
		short = pp[i+5:]
	}
	return short + "." + k
}

func (fc *FuncCtx) emit(st *State, kind, desc string, goal *Term, pos token.Pos, clause string) {
	if fc.noOblig > 0 {
		return
	}
	if goal.IsTrue() {
		// trivially true: still count as discharged obligation without solver
	}
	fc.counters[kind]++
	o := &Obligation{
		Name:   fmt.Sprintf("%s#%s#%d", fc.funcName(), kind, fc.counters[kind]),
		Func:   fc.funcName(),
		Kind:   kind,
		Desc:   desc,
		Pos:    fc.posStr(pos),
		Assume: st.pc.list(),
		Goal:   goal,
		Clause: clause,
	}
	if fc.contract != nil {
		o.Props = fc.contract.Properties
	}
	for t := range fc.theories {
		o.Theories = append(o.Theories, t)
	}
	sort.Strings(o.Theories)
	fc.obls = append(fc.obls, o)
}

func (fc *FuncCtx) emitCover(st *State, desc string, pos token.Pos) {
	fc.counters["cover"]++
	o := &Obligation{
		Name:   fmt.Sprintf("%s#cover#%d", fc.funcName(), fc.counters["cover"]),
		Func:   fc.funcName(),
		Kind:   "cover",
		Desc:   desc,
		Pos:    fc.posStr(pos),
		Assume: st.pc.list(),
		Goal:   TFalse,
		Cover:  true,
	}
	if fc.contract != nil {
		o.Props = fc.contract.Properties
	}
	for t := range fc.theories {
		o.Theories = append(o.Theories, t)
	}
	sort.Strings(o.Theories)
	fc.obls = append(fc.obls, o)
}

// ---------------------------------------------------------------- sorts of Go types

func coreOf(t types.Type) types.Type {
	t = types.Unalias(t)
	if tp, ok := t.(*types.TypeParam); ok {
		// find a single-type term in the constraint
		if it, ok := tp.Constraint().Underlying().(*types.Interface); ok {
			if c := ifaceCore(it, 0); c != nil {
				return c
			}
		}
		return t
	}
	return t
}

func ifaceCore(it *types.Interface, depth int) types.Type {
	if depth > 6 {
		return nil
	}
	for i := 0; i < it.NumEmbeddeds(); i++ {
		et := types.Unalias(it.EmbeddedType(i))
		switch x := et.(type) {
		case *types.Pointer:
			return x
		case *types.Union:
			if x.Len() == 1 {
				return x.Term(0).Type()
			}
		case *types.Named:
			if ii, ok := x.Underlying().(*types.Interface); ok {
				if c := ifaceCore(ii, depth+1); c != nil {
					return c
				}
			}
		case *types.Interface:
			if c := ifaceCore(x, depth+1); c != nil {
				return c
			}
		}
	}
	return nil
}

func typeParamName(t types.Type) string {
	t = types.Unalias(t)
	if tp, ok := t.(*types.TypeParam); ok {
		return tp.Obj().Name()
	}
	return ""
}

// bindOf returns the theory binding for a Go type ("" if none).
func (fc *FuncCtx) bindOf(t types.Type) string {
	if t == nil || len(fc.binds) == 0 {
		return ""
	}
	t = types.Unalias(t)
	if n := typeParamName(t); n != "" {
		if b, ok := fc.binds[n]; ok {
			return b
		}
		return ""
	}
	if p, ok := t.(*types.Pointer); ok {
		if n := typeParamName(p.Elem()); n != "" {
			if b, ok := fc.binds["*"+n]; ok {
				return b
			}
		}
		if nm, ok := types.Unalias(p.Elem()).(*types.Named); ok {
			if b, ok := fc.binds["*"+pkgQual(nm)]; ok {
				return b
			}
			if b, ok := fc.binds["*"+nm.Obj().Name()]; ok {
				return b
			}
			// value-like theories apply to pointers to the bound type as well (big integers are handled by pointer)
			for _, key := range []string{nm.Obj().Name(), pkgQual(nm)} {
				if b, ok := fc.binds[key]; ok && (b == "bigint" || b == "bigintS") {
					return b
				}
			}
		}
		return ""
	}
	if nm, ok := t.(*types.Named); ok {
		if b, ok := fc.binds[nm.Obj().Name()]; ok {
			return b
		}
		if nm.Obj().Pkg() != nil {
			if b, ok := fc.binds[nm.Obj().Pkg().Name()+"."+nm.Obj().Name()]; ok {
				return b
			}
		}
	}
	return ""
}

func pkgQual(nm *types.Named) string {
	if nm.Obj().Pkg() != nil {
		return nm.Obj().Pkg().Name() + "." + nm.Obj().Name()
	}
	return nm.Obj().Name()
}

func theorySort(b string) *Sort {
	switch b {
	case "ringint", "int", "bigint":
		return SInt
	}
	return SV
}

func (fc *FuncCtx) sortOf(t types.Type) *Sort {
	if t == nil {
		return SV
	}
	if b := fc.bindOf(t); b != "" && !strings.HasSuffix(b, "ptr") {
		return theorySort(b)
	}
	t = types.Unalias(t)
	switch x := t.(type) {
	case *types.Basic:
		switch {
		case x.Info()&types.IsBoolean != 0:
			return SBool
		case x.Info()&types.IsInteger != 0:
			return SInt
		case x.Kind() == types.UntypedNil:
			return SV
		}
		return SV
	case *types.Named:
		if _, ok := x.Underlying().(*types.Struct); ok {
			return SV
		}
		if _, ok := x.Underlying().(*types.Interface); ok {
			return SV
		}
		return fc.sortOf(x.Underlying())
	case *types.Slice:
		return SliceOf(fc.sortOf(x.Elem()))
	case *types.Array:
		return SliceOf(fc.sortOf(x.Elem()))
	case *types.Map:
		return MapOf(fc.sortOf(x.Key()), fc.sortOf(x.Elem()))
	case *types.TypeParam:
		c := coreOf(x)
		if c != t {
			if _, isPtr := c.(*types.Pointer); !isPtr {
				if _, isTP := c.(*types.TypeParam); !isTP {
					return fc.sortOf(c)
				}
			}
		}
		return SV
	}
	return SV
}

func intRange(t types.Type) (lo, hi string, ok bool) {
	if t == nil {
		return
	}
	b, isB := types.Unalias(t).Underlying().(*types.Basic)
	if !isB {
		return
	}
	switch b.Kind() {
	case types.Uint8:
		return "0", "255", true
	case types.Uint16:
		return "0", "65535", true
	case types.Uint32:
		return "0", "4294967295", true
	case types.Uint64, types.Uint, types.Uintptr:
		return "0", "18446744073709551615", true
	case types.Int8:
		return "-128", "127", true
	case types.Int16:
		return "-32768", "32767", true
	case types.Int32:
		return "-2147483648", "2147483647", true
	case types.Int64, types.Int:
		return "-9223372036854775808", "9223372036854775807", true
	}
	return
}

func intWidth(t types.Type) (bits int, signed bool) {
	if t == nil {
		return 0, false
	}
	b, isB := types.Unalias(t).Underlying().(*types.Basic)
	if !isB {
		return 0, false
	}
	switch b.Kind() {
	case types.Uint8:
		return 8, false
	case types.Uint16:
		return 16, false
	case types.Uint32:
		return 32, false
	case types.Uint64, types.Uint, types.Uintptr:
		return 64, false
	case types.Int8:
		return 8, true
	case types.Int16:
		return 16, true
	case types.Int32:
		return 32, true
	case types.Int64, types.Int:
		return 64, true
	}
	return 0, false
}

// typeFacts: range facts for an integer-typed atom, len >= 0 for slices
func (fc *FuncCtx) typeFacts(t *Term, typ types.Type) *Term {
	if t == nil || typ == nil {
		return TTrue
	}
	if b := fc.bindOf(typ); b != "" {
		if b == "bigint" && t.Sort.Kind == "Int" {
			// naturals are non-negative, positive naturals positive (type invariants of pkg/base/nt/num)
			s := typ.String()
			switch {
			case strings.HasSuffix(s, "num.NatPlus"):
				return Gt(t, IntLit(0))
			case strings.HasSuffix(s, "num.Nat"), strings.HasSuffix(s, "num.Uint"), strings.HasSuffix(s, "numct.Nat"):
				return Ge(t, IntLit(0))
			}
		}
		return TTrue
	}
	switch t.Sort.Kind {
	case "Int":
		if isChoice(typ) {
			return And(Le(IntLit(0), t), Le(t, IntLit(1)))
		}
		if lo, hi, ok := intRange(typ); ok {
			return And(Le(IntLitS(lo), t), Le(t, IntLitS(hi)))
		}
	case "Slice":
		f := Ge(SliceLen(t), IntLit(0))
		if a, ok := types.Unalias(typ).Underlying().(*types.Array); ok {
			f = Eq(SliceLen(t), IntLit(a.Len()))
		}
		return f
	}
	return TTrue
}

// fieldKey gives a stable heap key for a struct field.
func (fc *FuncCtx) fieldKey(f *types.Var) string {
	f = f.Origin()
	ps := fc.pkg.Fset.Position(f.Pos())
	file := ps.Filename
	if i := strings.LastIndex(file, "/"); i >= 0 {
		file = file[i+1:]
	}
	pk := ""
	if f.Pkg() != nil {
		pk = f.Pkg().Name()
	}
	return fmt.Sprintf("F$%s.%s$%s_%d", pk, f.Name(), strings.TrimSuffix(file, ".go"), ps.Line)
}

func (fc *FuncCtx) heapArr(st *State, key string, valSort *Sort) *Term {
	if a, ok := st.heap[key]; ok {
		return a
	}
	a := Const(key, ArrayOf(SV, valSort))
	st.heap[key] = a
	// make sure entry state sees same initial array (old() evaluation)
	if fc.entry != nil && fc.entry != st {
		if _, ok := fc.entry.heap[key]; !ok {
			fc.entry.heap[key] = a
		}
	}
	return a
}

func (fc *FuncCtx) memKey(s *Sort) string {
	return "mem$" + strings.NewReplacer("(", "", ")", "", " ", "_").Replace(s.String())
}

// zero value of a type
func (fc *FuncCtx) zeroVal(t types.Type, hint string) *Term {
	s := fc.sortOf(t)
	switch s.Kind {
	case "Int":
		if fc.bindOf(t) != "" {
			return fc.freshConst("zero_"+hint, s)
		}
		return IntLit(0)
	case "Bool":
		return TFalse
	case "Slice":
		if a, ok := types.Unalias(t).Underlying().(*types.Array); ok {
			return MkSlice(fc.freshConst("arr0_"+hint, ArrayOf(SInt, s.Elem)), IntLit(a.Len()))
		}
		return MkSlice(fc.freshConst("arr0_"+hint, ArrayOf(SInt, s.Elem)), IntLit(0))
	case "Map":
		return fc.emptyMap(s, hint)
	}
	u := types.Unalias(t).Underlying()
	switch u.(type) {
	case *types.Pointer, *types.Interface, *types.Signature, *types.Chan:
		return Const("nil", SV)
	}
	if b, ok := u.(*types.Basic); ok && b.Info()&types.IsString != 0 {
		return Const("str$empty", SV)
	}
	return fc.freshConst("zero_"+hint, SV)
}

// ---------------------------------------------------------------- allocation
// $alloc is the set of objects that exist; a freshly allocated object is outside it (hence distinct from every
// object that already existed: parameters, anything read from the heap) and is then added to it.

func (fc *FuncCtx) allocArr(st *State) *Term {
	if a, ok := st.heap["$alloc"]; ok {
		return a
	}
	a := Const("$alloc", ArrayOf(SV, SBool))
	st.heap["$alloc"] = a
	return a
}

func (fc *FuncCtx) newRef(st *State, hint string) *Term {
	ref := fc.freshConst(hint, SV)
	st.assume(Not(Eq(ref, Const("nil", SV))))
	a := fc.allocArr(st)
	st.assume(Not(Select(a, ref)))
	na := fc.freshConst("$alloc", a.Sort)
	st.assume(Eq(na, Store(a, ref, TTrue)))
	st.heap["$alloc"] = na
	return ref
}

// existing: the reference t denotes an object that already exists (or nil)
func (fc *FuncCtx) existing(st *State, t *Term, typ types.Type) {
	if t == nil || t.Sort.Kind != "V" || typ == nil {
		return
	}
	switch types.Unalias(typ).Underlying().(type) {
	case *types.Pointer, *types.Interface:
		st.assume(Select(fc.allocArr(st), t))
	}
	fc.assumeTypeInv(st, t, typ)
}

// assumeTypeInv: representation invariants declared with "typeinv T: pred" are assumed for every value of type
// *T that enters a function from outside (parameters, fields, call results). They are established by the
// constructors and decoders of T's own package; each use is recorded as an assumption.
func (fc *FuncCtx) assumeTypeInv(st *State, t *Term, typ types.Type) {
	if fc.inTypeInv || len(fc.eng.contracts.TypeInvs) == 0 {
		return
	}
	p, ok := types.Unalias(typ).Underlying().(*types.Pointer)
	if !ok {
		return
	}
	nm, ok := types.Unalias(p.Elem()).(*types.Named)
	if !ok {
		return
	}
	pred, ok := fc.eng.contracts.TypeInvs[pkgQual(nm)]
	if !ok {
		pred, ok = fc.eng.contracts.TypeInvs[nm.Obj().Name()]
	}
	if !ok {
		return
	}
	g, ok := fc.eng.contracts.Ghosts[pred]
	if !ok {
		return
	}
	fc.inTypeInv = true
	defer func() { fc.inTypeInv = false }()
	fc.noOblig++
	defer func() { fc.noOblig-- }()
	sc := &specCtx{names: map[string]Val{}, callee: &calleeCtx{}, pkg: nm.Obj().Pkg()}
	v := fc.callGhost(st, g, []Val{{T: t, Typ: typ}}, sc)
	if v.T != nil && v.T.Sort.Kind == "Bool" {
		st.assume(v.T)
		fc.note("representation invariant assumed for incoming values of type " + pkgQual(nm) + ": " + pred)
	}
}

// zeroElem: a canonical default element of a sort (used as the base of literal arrays; never observable)
func (fc *FuncCtx) zeroElem(s *Sort) *Term {
	switch s.Kind {
	case "Int":
		return IntLit(0)
	case "Bool":
		return TFalse
	case "V":
		return Const("nil", SV)
	case "Slice":
		return MkSlice(&Term{Op: "const-array", Args: []*Term{fc.zeroElem(s.Elem)}, Sort: ArrayOf(SInt, s.Elem)}, IntLit(0))
	case "Map":
		dom := &Term{Op: "const-array", Args: []*Term{TFalse}, Sort: ArrayOf(s.Key, SBool)}
		return MkMap(&Term{Op: "const-array", Args: []*Term{fc.zeroElem(s.Elem)}, Sort: ArrayOf(s.Key, s.Elem)}, dom)
	}
	return Const("nil", SV)
}

func (fc *FuncCtx) emptyMap(s *Sort, hint string) *Term {
	dom := &Term{Op: "const-array", Args: []*Term{TFalse}, Sort: ArrayOf(s.Key, SBool)}
	return MkMap(fc.freshConst("marr0_"+hint, ArrayOf(s.Key, s.Elem)), dom)
}
