package main

import (
	"fmt"
	"go/ast"
	"go/token"
	"go/types"
	"os"
	"runtime/debug"
	"sort"
	"strings"
	"sync"
	"time"
)

type FuncResult struct {
	Name        string
	Key         string
	Props       []string
	Obls        []*Obligation
	Assumptions []string
	Abstracted  []string
	Unproved    []string
	FreeClauses []string
	EngineErr   string
	Assumed     bool
	Orphaned    bool
}

func (e *Engine) newFuncCtx(fi *funcInfo, c *FuncContract) *FuncCtx {
	fc := &FuncCtx{
		eng: e, pkg: fi.pkg, info: fi.pkg.TypesInfo, decl: fi.decl, fn: fi.fn,
		sig: fi.fn.Type().(*types.Signature), contract: c,
		counters: map[string]int{}, loopKeys: map[string]int{}, theories: map[string]bool{},
		binds: map[string]string{}, localsByName: map[string][]types.Object{},
	}
	if c != nil {
		for k, v := range c.Binds {
			fc.binds[k] = v
		}
		for _, u := range strings.Fields(c.Opts["uses"]) {
			fc.theories[u] = true
		}
	}
	return fc
}

func (e *Engine) verifyFunc(fi *funcInfo, c *FuncContract) (res *FuncResult) {
	fc := e.newFuncCtx(fi, c)
	res = &FuncResult{Name: fc.funcName(), Key: c.PkgPath + "::" + c.Key, Props: c.Properties, Assumed: c.Assumed}
	defer func() {
		if r := recover(); r != nil {
			if ee, ok := r.(engineError); ok {
				res.EngineErr = ee.msg
				if os.Getenv("GOVC_DEBUG") != "" {
					res.EngineErr += "\n" + string(debug.Stack())
				}
			} else {
				res.EngineErr = fmt.Sprintf("%v\n%s", r, debug.Stack())
			}
		}
		res.Obls = fc.obls
		for a := range fc.assumed {
			res.Assumptions = append(res.Assumptions, a)
		}
		sort.Strings(res.Assumptions)
		res.Abstracted = fc.abstracted
	}()
	for _, cl := range c.Ensures {
		if cl.Unproved {
			res.Unproved = append(res.Unproved, "ensures "+cl.Text)
		}
		if cl.Free {
			res.FreeClauses = append(res.FreeClauses, "free ensures "+cl.Text)
		}
	}
	for _, cl := range c.Requires {
		if cl.Free {
			res.FreeClauses = append(res.FreeClauses, "free requires "+cl.Text)
		}
	}
	for _, lc := range c.Loops {
		for _, cl := range lc.Invariants {
			if cl.Unproved {
				res.Unproved = append(res.Unproved, "invariant "+cl.Text)
			}
			if cl.Free {
				res.FreeClauses = append(res.FreeClauses, "free invariant "+cl.Text)
			}
		}
	}
	if c.Assumed {
		return res
	}
	// locals by name (for spec name resolution)
	for id, obj := range fc.info.Defs {
		if obj == nil || id.Pos() < fi.decl.Pos() || id.Pos() > fi.decl.End() {
			continue
		}
		if v, ok := obj.(*types.Var); ok && !v.IsField() {
			fc.localsByName[v.Name()] = append(fc.localsByName[v.Name()], v)
		}
	}
	st := &State{env: map[types.Object]Val{}, names: map[string]Val{}, heap: map[string]*Term{}}
	fc.entry = st
	fc.specPos = fi.decl.Body.Rbrace
	// parameters
	bindParam := func(v *types.Var) {
		if v == nil || v.Name() == "" || v.Name() == "_" {
			return
		}
		s := fc.sortOf(v.Type())
		if pointee(v.Type()) != nil && !isStructPtr(v.Type()) {
			s = SV // address
		}
		t := Const("in$"+v.Name(), s)
		st.env[v] = Val{T: t, Typ: v.Type()}
		st.assume(fc.typeFacts(t, v.Type()))
		fc.existing(st, t, v.Type())
	}
	sig := fc.sig
	// use the declared parameter objects (Defs) so that body references match
	if fi.decl.Recv != nil {
		for _, f := range fi.decl.Recv.List {
			for _, n := range f.Names {
				if v, ok := fc.info.Defs[n].(*types.Var); ok {
					bindParam(v)
				}
			}
		}
	}
	for _, f := range fi.decl.Type.Params.List {
		for _, n := range f.Names {
			if v, ok := fc.info.Defs[n].(*types.Var); ok {
				bindParam(v)
			}
		}
	}
	// results
	if fi.decl.Type.Results != nil {
		named := false
		for _, f := range fi.decl.Type.Results.List {
			if len(f.Names) > 0 {
				named = true
			}
		}
		if named {
			for _, f := range fi.decl.Type.Results.List {
				for _, n := range f.Names {
					if v, ok := fc.info.Defs[n].(*types.Var); ok {
						fc.resultVars = append(fc.resultVars, v)
						fc.resultName = append(fc.resultName, v.Name())
						st.env[v] = Val{T: fc.zeroVal(v.Type(), v.Name()), Typ: v.Type()}
					}
				}
			}
		} else {
			res := sig.Results()
			for i := 0; i < res.Len(); i++ {
				nm := defaultResultName(res, i)
				v := types.NewVar(token.NoPos, fc.pkg.Types, nm, res.At(i).Type())
				fc.resultVars = append(fc.resultVars, v)
				fc.resultName = append(fc.resultName, nm)
			}
		}
	}
	// ghost variables of the function: unconstrained at entry
	for _, gv := range c.GhostVars {
		gs, gt := fc.sortOfTypeName(gv.Type, &specCtx{names: st.names, pkg: fc.pkg.Types, pos: fi.decl.Body.Lbrace + 1})
		st.names[gv.Name] = Val{T: fc.freshConst("gv_"+gv.Name, gs), Typ: gt}
	}
	// entry snapshot for old()
	entrySnap := st.clone()
	fc.entry = entrySnap
	// lets
	sc := &specCtx{names: st.names, old: entrySnap, pos: fi.decl.Body.Lbrace + 1, pkg: fc.pkg.Types}
	for _, l := range c.Lets {
		e, err := parseSpecExpr(l[1])
		if err != nil {
			panic(engineError{err.Error()})
		}
		fc.noOblig++
		v := fc.evalSpec(st, e, sc)
		fc.noOblig--
		st.names[l[0]] = v
		entrySnap.names[l[0]] = v
	}
	// requires
	for _, rq := range c.Requires {
		if rq.Unproved {
			continue
		}
		fc.noOblig++
		g := fc.evalSpecBool(st, rq.Expr, sc)
		fc.noOblig--
		st.assume(g)
	}
	entrySnap.pc = st.pc
	for k, v := range st.heap {
		entrySnap.heap[k] = v
	}
	ri := fc.buildReplayInfo()
	fc.buildPostFormula(ri)
	replayInfos[fc.funcName()] = ri
	fc.emitCover(st, "precondition satisfiable", fi.decl.Pos())
	f := fc.execBlock(st, fi.decl.Body.List)
	if f.next != nil {
		// fell off the end
		var vals []Val
		for _, rv := range fc.resultVars {
			vals = append(vals, fc.readVar(f.next, rv, token.NoPos))
		}
		fc.finishReturn(f.next, vals, fi.decl.Body.Rbrace)
	}
	for _, lc := range c.Loops {
		if !lc.used {
			res.Orphaned = true
			res.EngineErr = "loop contract not matched: " + lc.Key
		}
	}
	for _, h := range c.Asserts {
		if !h.used {
			res.Orphaned = true
			res.EngineErr = "assert hint anchor not matched: " + h.Anchor
		}
	}
	return res
}

// ---------------------------------------------------------------- axioms and lemmas

func (e *Engine) dummyCtx() *FuncCtx {
	var anyPkg *funcInfo
	for _, fi := range e.funcDecls {
		anyPkg = fi
		break
	}
	fc := &FuncCtx{eng: e, counters: map[string]int{}, loopKeys: map[string]int{}, theories: map[string]bool{}, binds: map[string]string{}, localsByName: map[string][]types.Object{}}
	if anyPkg != nil {
		fc.pkg = anyPkg.pkg
		fc.info = anyPkg.pkg.TypesInfo
	}
	return fc
}

func (e *Engine) axiomTerm(a *Axiom) (t *Term, err error) {
	defer func() {
		if r := recover(); r != nil {
			if ee, ok := r.(engineError); ok {
				err = fmt.Errorf("axiom %s: %s", a.Name, ee.msg)
			} else {
				err = fmt.Errorf("axiom %s: %v", a.Name, r)
			}
		}
	}()
	fc := e.dummyCtx()
	st := &State{env: map[types.Object]Val{}, names: map[string]Val{}, heap: map[string]*Term{}}
	fc.entry = st
	fc.noOblig++
	sc := &specCtx{names: map[string]Val{}, callee: &calleeCtx{}}
	if a.PkgPath != "" {
		if p, ok := e.pkgs[a.PkgPath]; ok {
			sc.pkg = p.Types
		}
	}
	t = fc.evalSpecBool(st, a.Expr, sc)
	addDefPattern(t)
	// facts produced while evaluating become part of the axiom
	facts := st.pc.list()
	if len(facts) > 0 {
		t = And(append(facts, t)...)
	}
	return t, nil
}

// addDefPattern: for definitional axioms "forall xs :: [cond ==>] f(args) == rhs" use f(args) as the trigger
// when it mentions every bound variable (keeps instantiation predictable).
func addDefPattern(t *Term) {
	if t.Op != "forall" || len(t.Pats) > 0 {
		return
	}
	body := t.Args[0]
	for body.Op == "=>" {
		body = body.Args[1]
	}
	if body.Op != "=" {
		return
	}
	lhs := body.Args[0]
	if !lhs.UF || len(lhs.Args) == 0 {
		return
	}
	seen := map[string]bool{}
	var walk func(x *Term) bool
	walk = func(x *Term) bool {
		if x.Op == "var" {
			seen[x.Lit] = true
			return true
		}
		// patterns may not contain interpreted arithmetic at the top of an argument
		ok := true
		for _, a := range x.Args {
			if !walk(a) {
				ok = false
			}
		}
		if !x.UF && x.Op != "var" && len(x.Args) > 0 && (x.Op == "+" || x.Op == "-" || x.Op == "*" || x.Op == "div" || x.Op == "mod") {
			return false
		}
		return ok
	}
	if !walk(lhs) {
		return
	}
	for _, b := range t.Bound {
		if !seen[b.Lit] {
			return
		}
	}
	t.Pats = [][]*Term{{lhs}}
}

// autoPattern chooses a trigger for a universally quantified formula: an uninterpreted application (or an array
// read) that mentions every bound variable and has no arithmetic on the path to a bound variable. Formulas
// without such a term are left to the solver's own heuristics.
func autoPattern(t *Term) {
	if t.Op != "forall" || len(t.Pats) > 0 {
		return
	}
	need := map[string]bool{}
	for _, b := range t.Bound {
		need[b.Lit] = true
	}
	var best *Term
	bestSize := 1 << 30
	// returns (set of bound vars, clean, size)
	var walk func(x *Term) (map[string]bool, bool, int)
	walk = func(x *Term) (map[string]bool, bool, int) {
		if x.Op == "var" {
			if need[x.Lit] {
				return map[string]bool{x.Lit: true}, true, 1
			}
			return map[string]bool{}, true, 1 // variable of an enclosing quantifier
		}
		if x.Op == "forall" || x.Op == "exists" {
			return map[string]bool{}, false, 1
		}
		vars := map[string]bool{}
		clean := true
		size := 1
		for _, a := range x.Args {
			v, c, s := walk(a)
			for k := range v {
				vars[k] = true
			}
			if !c {
				clean = false
			}
			size += s
		}
		arith := x.Op == "+" || x.Op == "-" || x.Op == "*" || x.Op == "div" || x.Op == "mod" || x.Op == "ite" ||
			x.Op == "and" || x.Op == "or" || x.Op == "not" || x.Op == "=>" || x.Op == "=" || x.Op == "<" || x.Op == "<=" || x.Op == ">" || x.Op == ">="
		if arith && len(vars) > 0 || notInPattern(x.Op) {
			clean = false
		}
		isApp := x.UF && len(x.Args) > 0 || x.Op == "select" || x.Op == "slen" || x.Op == "sarr"
		if isApp && clean && len(vars) == len(need) && len(need) > 0 && size < bestSize {
			best = x
			bestSize = size
		}
		return vars, clean, size
	}
	// candidates: clean applications that mention at least one bound variable (for multi-patterns)
	type cand struct {
		t    *Term
		vars map[string]bool
		size int
	}
	var cands []cand
	var collect func(x *Term)
	collect = func(x *Term) {
		if x.Op == "forall" || x.Op == "exists" {
			return
		}
		for _, a := range x.Args {
			collect(a)
		}
		v, c, s := walkNoRecord(x, need)
		if (x.UF && len(x.Args) > 0 || x.Op == "select") && c && len(v) > 0 {
			cands = append(cands, cand{x, v, s})
		}
	}
	body := t.Args[0]
	// (1) equation with a covering left-hand side: orient the axiom as a rewrite rule from the lhs.
	//     div/mod are allowed inside such a pattern (matched syntactically), which avoids matching loops
	//     for laws like jac(a mod b, b) == jac(a, b).
	eq := body
	for eq.Op == "=>" {
		eq = eq.Args[1]
	}
	if eq.Op == "=" && (eq.Args[0].UF && len(eq.Args[0].Args) > 0 || eq.Args[0].Op == "mod" || eq.Args[0].Op == "div") {
		lhs := eq.Args[0]
		if v, ok := patVars(lhs, need); ok && len(v) == len(need) {
			t.Pats = [][]*Term{{lhs}}
			return
		}
	}
	walk(body)
	if best != nil {
		t.Pats = [][]*Term{{best}}
		return
	}
	// (3) greedy multi-pattern
	collect(body)
	covered := map[string]bool{}
	var multi []*Term
	for len(covered) < len(need) {
		bi, gain := -1, 0
		for i, c := range cands {
			g := 0
			for k := range c.vars {
				if !covered[k] {
					g++
				}
			}
			if g > gain || (g == gain && g > 0 && bi >= 0 && c.size < cands[bi].size) {
				bi, gain = i, g
			}
		}
		if bi < 0 || gain == 0 {
			return
		}
		multi = append(multi, cands[bi].t)
		for k := range cands[bi].vars {
			covered[k] = true
		}
	}
	if len(multi) > 0 {
		t.Pats = [][]*Term{multi}
	}
}

// patVars: bound variables of a candidate pattern; ok is false if the term contains connectives or +,-,* over
// bound variables (div and mod are tolerated).
func patVars(x *Term, need map[string]bool) (map[string]bool, bool) {
	if x.Op == "var" {
		if need[x.Lit] {
			return map[string]bool{x.Lit: true}, true
		}
		return map[string]bool{}, true
	}
	if x.Op == "forall" || x.Op == "exists" {
		return nil, false
	}
	vars := map[string]bool{}
	for _, a := range x.Args {
		v, ok := patVars(a, need)
		if !ok {
			return nil, false
		}
		for k := range v {
			vars[k] = true
		}
	}
	bad := x.Op == "+" || x.Op == "-" || x.Op == "*" || x.Op == "ite" || x.Op == "and" || x.Op == "or" || x.Op == "not" ||
		x.Op == "=>" || x.Op == "=" || x.Op == "<" || x.Op == "<=" || x.Op == ">" || x.Op == ">="
	if bad && len(vars) > 0 || notInPattern(x.Op) {
		return nil, false
	}
	return vars, true
}

func walkNoRecord(x *Term, need map[string]bool) (map[string]bool, bool, int) {
	if x.Op == "var" {
		if need[x.Lit] {
			return map[string]bool{x.Lit: true}, true, 1
		}
		return map[string]bool{}, true, 1
	}
	if x.Op == "forall" || x.Op == "exists" {
		return map[string]bool{}, false, 1
	}
	vars := map[string]bool{}
	clean := true
	size := 1
	for _, a := range x.Args {
		v, c, s := walkNoRecord(a, need)
		for k := range v {
			vars[k] = true
		}
		if !c {
			clean = false
		}
		size += s
	}
	arith := x.Op == "+" || x.Op == "-" || x.Op == "*" || x.Op == "div" || x.Op == "mod" || x.Op == "ite" ||
		x.Op == "and" || x.Op == "or" || x.Op == "not" || x.Op == "=>" || x.Op == "=" || x.Op == "<" || x.Op == "<=" || x.Op == ">" || x.Op == ">="
	if arith && len(vars) > 0 || notInPattern(x.Op) {
		clean = false
	}
	return vars, clean, size
}

// theoryAxioms returns the axioms of the named theories.
func (e *Engine) theoryAxioms(theories []string) ([]*Term, []string, error) {
	want := map[string]bool{}
	for _, t := range theories {
		want[t] = true
	}
	var out []*Term
	var names []string
	for _, a := range e.contracts.Axioms {
		if !want[a.Theory] {
			continue
		}
		t, err := e.axiomTerm(a)
		if err != nil {
			return nil, nil, err
		}
		out = append(out, t)
		names = append(names, a.Theory+"/"+a.Name)
	}
	// a proved lemma may be used by name ("uses LemmaName"): it is an obligation of its own property check
	for _, l := range e.contracts.Lemmas {
		if !want[l.Name] {
			continue
		}
		t, err := e.axiomTerm(l)
		if err != nil {
			return nil, nil, err
		}
		out = append(out, t)
		names = append(names, "lemma/"+l.Name)
	}
	return out, names, nil
}

func (e *Engine) lemmaObligation(l *Axiom) (obs []*Obligation, err error) {
	defer func() {
		if r := recover(); r != nil {
			if ee, ok := r.(engineError); ok {
				err = fmt.Errorf("lemma %s: %s", l.Name, ee.msg)
			} else {
				err = fmt.Errorf("lemma %s: %v\n%s", l.Name, r, debug.Stack())
			}
		}
	}()
	fc := e.dummyCtx()
	st := &State{env: map[types.Object]Val{}, names: map[string]Val{}, heap: map[string]*Term{}}
	fc.entry = st
	fc.noOblig++
	sc := &specCtx{names: map[string]Val{}, callee: &calleeCtx{}}
	if l.PkgPath != "" {
		if p, ok := e.pkgs[l.PkgPath]; ok {
			sc.pkg = p.Types
		}
	}
	if len(l.Cases) > 0 && l.Expr.Kind == "quant" && l.Expr.Name == "forall" {
		// complete case split over bounded integer variables
		var rest []QVar
		isCase := map[string]CaseVar{}
		for _, c := range l.Cases {
			isCase[c.Name] = c
		}
		for _, qv := range l.Expr.Vars {
			if _, ok := isCase[qv.Name]; !ok {
				rest = append(rest, qv)
			}
		}
		var combos []map[string]int64
		combos = append(combos, map[string]int64{})
		for _, c := range l.Cases {
			var next []map[string]int64
			for _, m := range combos {
				for v := c.Lo; v <= c.Hi; v++ {
					n := map[string]int64{}
					for k, x := range m {
						n[k] = x
					}
					n[c.Name] = v
					next = append(next, n)
				}
			}
			combos = next
		}
		cnt := 0
		mkOb := func(g *Term, desc string) {
			cnt++
			obs = append(obs, &Obligation{Name: fmt.Sprintf("lemma.%s#lemma#%d", l.Name, cnt), Func: "lemma." + l.Name, Kind: "lemma", Desc: desc, Assume: st.pc.list(), Goal: g, Props: l.Properties, Clause: l.Text, Theories: l.Uses})
		}
		for _, m := range combos {
			n := sc
			var desc []string
			for k, v := range m {
				n = n.withBound(k, Val{T: IntLit(v), Typ: types.Typ[types.Int]})
				desc = append(desc, fmt.Sprintf("%s=%d", k, v))
			}
			sort.Strings(desc)
			body := l.Expr.Args[0]
			var e2 *SExpr = body
			if len(rest) > 0 {
				e2 = &SExpr{Kind: "quant", Name: "forall", Vars: rest, Args: []*SExpr{body}}
			}
			mkOb(fc.evalSpecBool(st, e2, n), "case "+strings.Join(desc, ","))
		}
		// out-of-range: the lemma body must hold trivially (hypotheses exclude it)
		var oor []*SExpr
		for _, c := range l.Cases {
			lo := &SExpr{Kind: "binary", Name: "<", Args: []*SExpr{{Kind: "ident", Name: c.Name}, {Kind: "int", Name: fmt.Sprint(c.Lo)}}}
			hi := &SExpr{Kind: "binary", Name: ">", Args: []*SExpr{{Kind: "ident", Name: c.Name}, {Kind: "int", Name: fmt.Sprint(c.Hi)}}}
			oor = append(oor, &SExpr{Kind: "binary", Name: "||", Args: []*SExpr{lo, hi}})
		}
		cond := oor[0]
		for _, x := range oor[1:] {
			cond = &SExpr{Kind: "binary", Name: "||", Args: []*SExpr{cond, x}}
		}
		e3 := &SExpr{Kind: "quant", Name: "forall", Vars: l.Expr.Vars, Args: []*SExpr{{Kind: "binary", Name: "==>", Args: []*SExpr{cond, l.Expr.Args[0]}}}}
		mkOb(fc.evalSpecBool(st, e3, sc), "cases exhaustive")
		return obs, nil
	}
	g := fc.evalSpecBool(st, l.Expr, sc)
	o := &Obligation{Name: "lemma." + l.Name + "#lemma#1", Func: "lemma." + l.Name, Kind: "lemma", Desc: "lemma", Assume: st.pc.list(), Goal: g, Props: l.Properties, Clause: l.Text, Theories: l.Uses}
	return []*Obligation{o}, nil
}

// ---------------------------------------------------------------- discharge

type runOpts struct {
	timeout int
	workers int
	verbose bool
	recheck bool
}

func (e *Engine) discharge(obls []*Obligation, opts runOpts) error {
	axCache := map[string][]*Term{}
	var axMu sync.Mutex
	getAx := func(th []string) ([]*Term, error) {
		key := strings.Join(th, ",")
		axMu.Lock()
		defer axMu.Unlock()
		if a, ok := axCache[key]; ok {
			return a, nil
		}
		a, _, err := e.theoryAxioms(th)
		if err != nil {
			return nil, err
		}
		axCache[key] = a
		return a, nil
	}
	// pre-compute axioms serially (engine is not re-entrant)
	for _, o := range obls {
		if _, err := getAx(o.Theories); err != nil {
			return err
		}
	}
	run := func(list []*Obligation, workers int, f func(o *Obligation)) {
		var wg sync.WaitGroup
		ch := make(chan *Obligation)
		for w := 0; w < workers; w++ {
			wg.Add(1)
			go func() {
				defer wg.Done()
				for o := range ch {
					f(o)
				}
			}()
		}
		for _, o := range list {
			ch <- o
		}
		close(ch)
		wg.Wait()
	}
	queries := map[*Obligation]string{}
	var qmu sync.Mutex
	query := func(o *Obligation) string {
		qmu.Lock()
		defer qmu.Unlock()
		if q, ok := queries[o]; ok {
			return q
		}
		ax, _ := getAx(o.Theories)
		q := renderQuery(ax, o.Assume, o.Goal, nil, false)
		queries[o] = q
		return q
	}
	// phase A: every obligation once on cvc5 (fast start-up), fully parallel; covers on z3new
	run(obls, 16, func(o *Obligation) {
		if !o.Cover && o.Goal.IsTrue() {
			o.Status = "discharged"
			o.Result = SolveResult{Status: "unsat", Solver: "trivial"}
			return
		}
		q := query(o)
		if o.Cover {
			r := solve(q, 3, "z3new")
			o.Result = r
			if r.Status == "unsat" {
				o.Status = "unreachable"
			} else {
				o.Status = "reachable"
			}
			return
		}
		t0 := time.Now()
		r := solve(q, 4, "cvc5")
		r.Time = time.Since(t0).Seconds()
		o.Result = r
		if r.Status == "unsat" {
			o.Status = "discharged"
		} else {
			o.Status = "failed"
		}
	})
	// phase B: the rest raced on all three solvers
	var rest []*Obligation
	for _, o := range obls {
		if !o.Cover && o.Status == "failed" && o.Result.Status != "sat" {
			rest = append(rest, o)
		}
	}
	run(rest, 5, func(o *Obligation) {
		t0 := time.Now()
		r := solve(query(o), opts.timeout, "")
		r.Time = time.Since(t0).Seconds()
		o.Result = r
		if r.Status == "unsat" {
			o.Status = "discharged"
		}
	})
	// phase C: anything still undecided gets one more attempt alone with three times the budget, so that a
	// loaded machine does not turn a slow proof into an alarm
	for _, o := range rest {
		if o.Status == "failed" && o.Result.Status != "sat" {
			t0 := time.Now()
			r := solve(query(o), 3*opts.timeout, "")
			r.Time = time.Since(t0).Seconds()
			o.Result = r
			if r.Status == "unsat" {
				o.Status = "discharged"
				o.Retried = true
			}
		}
	}
	return nil
}

// queryFor renders the SMT query of an obligation (for replay files / models)
func (e *Engine) queryFor(o *Obligation, model bool) string {
	ax, _, _ := e.theoryAxioms(o.Theories)
	return renderQuery(ax, o.Assume, o.Goal, nil, model)
}

var _ = ast.Inspect
