package main

import (
	"fmt"
	"go/ast"
	"go/constant"
	"go/token"
	"go/types"
	"math/big"
	"strings"
)

type flow struct {
	next *State
	brk  []*State
	cont []*State
	// labelled break/continue states that target an enclosing (not the innermost) statement
	lbrk  []labState
	lcont []labState
}

type labState struct {
	label string
	st    *State
}

// takeLabelled splits the labelled states of a flow into those targeting label (returned) and the rest.
func takeLabelled(ls []labState, label string) (mine []*State, rest []labState) {
	for _, l := range ls {
		if label != "" && l.label == label {
			mine = append(mine, l.st)
		} else {
			rest = append(rest, l)
		}
	}
	return mine, rest
}

type engineError struct{ msg string }

func (fc *FuncCtx) fail(pos token.Pos, format string, args ...any) {
	panic(engineError{fmt.Sprintf("%s: %s", fc.posStr(pos), fmt.Sprintf(format, args...))})
}

// ---------------------------------------------------------------- locations

func (fc *FuncCtx) readLoc(st *State, l *Loc) *Term {
	switch l.Kind {
	case "local":
		v, ok := st.env[l.Obj]
		if !ok || v.T == nil {
			// uninitialised / unknown local: fresh
			t := fc.freshConst(l.Obj.Name(), l.Sort)
			st.env[l.Obj] = Val{T: t, Typ: l.Typ}
			return t
		}
		return v.T
	case "field":
		return Select(fc.heapArr(st, l.Key, l.Sort), l.Base)
	case "mem":
		return Select(fc.heapArr(st, l.Key, l.Sort), l.Base)
	case "elem":
		p := fc.readLoc(st, l.Parent)
		return SliceAt(p, l.Index)
	case "mapelem":
		p := fc.readLoc(st, l.Parent)
		return Select(MapArr(p), l.Index)
	}
	panic("readLoc: bad kind " + l.Kind)
}

func (fc *FuncCtx) writeLoc(st *State, l *Loc, v *Term) {
	if !l.Sort.Eq(v.Sort) {
		if (l.Kind == "field" || l.Kind == "elem") && (strings.Contains(l.Sort.String(), "V") || strings.Contains(v.Sort.String(), "V")) {
			// a field of a generic struct whose declared type mentions a type parameter (sort V) receives a value of
			// the instantiated type: the stored value is abstracted to an unknown (reads see an arbitrary value)
			fc.note("field of a generic struct written with an instantiated value: contents abstracted (" + l.Key + ")")
			v = fc.freshConst("genfield", l.Sort)
		} else {
			panic(engineError{fmt.Sprintf("writeLoc sort mismatch at %s: loc %s val %s", l.id(), l.Sort, v.Sort)})
		}
	}
	switch l.Kind {
	case "local":
		st.env[l.Obj] = Val{T: v, Typ: l.Typ}
	case "field", "mem":
		arr := fc.heapArr(st, l.Key, l.Sort)
		st.heap[l.Key] = fc.nameTerm(st, l.Key, Store(arr, l.Base, v))
	case "elem":
		p := fc.readLoc(st, l.Parent)
		if p.Sort.Kind == "Slice" && !p.Sort.Elem.Eq(v.Sort) && strings.Contains(p.Sort.String(), "V") {
			fc.note("element of a generic container written with an instantiated value: contents abstracted")
			v = fc.freshConst("genelem", p.Sort.Elem)
		}
		np := MkSlice(Store(SliceArr(p), l.Index, v), SliceLen(p))
		fc.writeLoc(st, l.Parent, fc.nameTerm(st, "sl", np))
	case "mapelem":
		p := fc.readLoc(st, l.Parent)
		np := MkMap(Store(MapArr(p), l.Index, v), Store(MapDom(p), l.Index, TTrue))
		fc.writeLoc(st, l.Parent, fc.nameTerm(st, "mp", np))
	default:
		panic("writeLoc: bad kind " + l.Kind)
	}
}

// nameTerm introduces a fresh constant equal to t (passive form) to keep terms small.
func (fc *FuncCtx) nameTerm(st *State, base string, t *Term) *Term {
	if len(t.Args) == 0 || fc.noName > 0 {
		// inside quantifier bodies terms may mention bound variables: they must not be named by constants
		return t
	}
	c := fc.freshConst(base, t.Sort)
	st.assume(Eq(c, t))
	return c
}

func isStructPtr(t types.Type) bool {
	p, ok := types.Unalias(t).Underlying().(*types.Pointer)
	if !ok {
		return false
	}
	_, ok = types.Unalias(p.Elem()).Underlying().(*types.Struct)
	return ok
}

func isStruct(t types.Type) bool {
	if t == nil {
		return false
	}
	if _, ok := types.Unalias(t).(*types.TypeParam); ok {
		return false
	}
	_, ok := types.Unalias(t).Underlying().(*types.Struct)
	return ok
}

// pointee returns the element type if t is (or has core type) a pointer.
func pointee(t types.Type) types.Type {
	if t == nil {
		return nil
	}
	t = types.Unalias(t)
	if p, ok := t.Underlying().(*types.Pointer); ok {
		return p.Elem()
	}
	if _, ok := t.(*types.TypeParam); ok {
		if p, ok := coreOf(t).(*types.Pointer); ok {
			return p.Elem()
		}
	}
	return nil
}

// derefLoc: location a pointer value refers to
func (fc *FuncCtx) derefLoc(st *State, v Val, pos token.Pos) *Loc {
	if v.Loc != nil {
		return v.Loc
	}
	el := pointee(v.Typ)
	if el == nil {
		fc.fail(pos, "deref of non-pointer %v", v.Typ)
	}
	s := fc.sortOf(el)
	return &Loc{Kind: "mem", Base: v.T, Key: fc.memKey(s), Sort: s, Typ: el}
}

func (fc *FuncCtx) evalLoc(st *State, e ast.Expr) *Loc {
	switch x := e.(type) {
	case *ast.ParenExpr:
		return fc.evalLoc(st, x.X)
	case *ast.Ident:
		obj := fc.info.ObjectOf(x)
		if obj == nil {
			fc.fail(x.Pos(), "no object for %s", x.Name)
		}
		if v, ok := st.env[obj]; ok && v.Loc != nil && pointee(obj.Type()) == nil {
			return v.Loc
		}
		return &Loc{Kind: "local", Obj: obj, Sort: fc.sortOf(obj.Type()), Typ: obj.Type()}
	case *ast.SelectorExpr:
		sel := fc.info.Selections[x]
		if sel == nil || sel.Kind() != types.FieldVal {
			// package-level variable
			if obj := fc.info.ObjectOf(x.Sel); obj != nil {
				return &Loc{Kind: "local", Obj: obj, Sort: fc.sortOf(obj.Type()), Typ: obj.Type()}
			}
			fc.fail(x.Pos(), "unsupported selector lvalue")
		}
		base := fc.evalExpr(st, x.X)
		return fc.fieldLoc(st, base, sel, x.Pos())
	case *ast.IndexExpr:
		bt := fc.info.TypeOf(x.X)
		idx := fc.evalExpr(st, x.Index)
		var parent *Loc
		but := types.Unalias(bt).Underlying()
		if p, ok := but.(*types.Pointer); ok { // pointer to array
			pv := fc.evalExpr(st, x.X)
			parent = fc.derefLoc(st, pv, x.Pos())
			but = p.Elem().Underlying()
		} else if fc.isAddressable(x.X) {
			parent = fc.evalLoc(st, x.X)
		} else {
			// temporary
			v := fc.evalExpr(st, x.X)
			tmp := types.NewVar(token.NoPos, nil, "tmp", bt)
			st.env[tmp] = v
			parent = &Loc{Kind: "local", Obj: tmp, Sort: v.T.Sort, Typ: bt}
		}
		switch tt := but.(type) {
		case *types.Map:
			return &Loc{Kind: "mapelem", Parent: parent, Index: idx.T, Sort: fc.sortOf(tt.Elem()), Typ: tt.Elem()}
		case *types.Slice:
			fc.boundsCheck(st, fc.readLoc(st, parent), idx.T, x.Pos())
			return &Loc{Kind: "elem", Parent: parent, Index: idx.T, Sort: fc.sortOf(tt.Elem()), Typ: tt.Elem()}
		case *types.Array:
			fc.boundsCheck(st, fc.readLoc(st, parent), idx.T, x.Pos())
			return &Loc{Kind: "elem", Parent: parent, Index: idx.T, Sort: fc.sortOf(tt.Elem()), Typ: tt.Elem()}
		}
		fc.fail(x.Pos(), "unsupported index lvalue on %v", bt)
	case *ast.StarExpr:
		v := fc.evalExpr(st, x.X)
		if isStructPtr(v.Typ) {
			fc.fail(x.Pos(), "whole-struct assignment through pointer not supported")
		}
		return fc.derefLoc(st, v, x.Pos())
	case *ast.CallExpr:
		// conversion of pointer e.g. FP(&x) used as lvalue base -- not an lvalue
	}
	fc.fail(e.Pos(), "unsupported lvalue %T", e)
	return nil
}

func (fc *FuncCtx) isAddressable(e ast.Expr) bool {
	switch x := e.(type) {
	case *ast.Ident:
		_, ok := fc.info.ObjectOf(x).(*types.Var)
		return ok
	case *ast.ParenExpr:
		return fc.isAddressable(x.X)
	case *ast.SelectorExpr:
		sel := fc.info.Selections[x]
		return sel != nil && sel.Kind() == types.FieldVal
	case *ast.IndexExpr:
		bt := fc.info.TypeOf(x.X)
		if bt == nil {
			return false
		}
		switch types.Unalias(bt).Underlying().(type) {
		case *types.Slice:
			return true
		case *types.Array:
			return fc.isAddressable(x.X)
		case *types.Map:
			return fc.isAddressable(x.X)
		}
	case *ast.StarExpr:
		return true
	}
	return false
}

// fieldLoc follows a (possibly embedded) field selection path.
func (fc *FuncCtx) fieldLoc(st *State, base Val, sel *types.Selection, pos token.Pos) *Loc {
	t := base.Typ
	cur := base.T
	if cur == nil {
		fc.fail(pos, "field access on non-term value")
	}
	var loc *Loc
	idx := sel.Index()
	rt := sel.Recv()
	_ = t
	for k, i := range idx {
		// deref pointer
		rt = types.Unalias(rt)
		if p, ok := rt.Underlying().(*types.Pointer); ok {
			rt = p.Elem()
		}
		stt, ok := types.Unalias(rt).Underlying().(*types.Struct)
		if !ok {
			fc.fail(pos, "field path through non-struct %v", rt)
		}
		f := stt.Field(i)
		fc.nilCheck(st, cur, pos)
		loc = &Loc{Kind: "field", Base: cur, Key: fc.fieldKey(f), Sort: fc.sortOf(f.Origin().Type()), Typ: f.Type()}
		if k < len(idx)-1 {
			cur = fc.readLoc(st, loc)
			rt = f.Type()
		}
	}
	return loc
}

func (fc *FuncCtx) nilCheck(st *State, ref *Term, pos token.Pos) {
	if fc.contract != nil && fc.contract.Opts["nilcheck"] == "on" && fc.noOblig == 0 {
		fc.emit(st, "nil", "dereferenced reference is non-nil", Not(Eq(ref, Const("nil", SV))), pos, "")
		// after the access the reference was non-nil (otherwise the program panicked)
		st.assume(Not(Eq(ref, Const("nil", SV))))
	}
}

func (fc *FuncCtx) boundsCheck(st *State, slice *Term, idx *Term, pos token.Pos) {
	if fc.contract != nil && fc.contract.NoPanic && fc.noOblig == 0 {
		fc.emit(st, "bounds", "index within bounds", And(Le(IntLit(0), idx), Lt(idx, SliceLen(slice))), pos, "")
	}
	// after the access the index was in range (otherwise the program panicked)
	st.assume(And(Le(IntLit(0), idx), Lt(idx, SliceLen(slice))))
}

// ---------------------------------------------------------------- expressions

func constTerm(v constant.Value, s *Sort) *Term {
	switch v.Kind() {
	case constant.Bool:
		return BoolLit(constant.BoolVal(v))
	case constant.Int:
		if s.Kind == "Int" {
			return IntLitS(v.ExactString())
		}
	case constant.String:
		return strConst(constant.StringVal(v))
	}
	return nil
}

func strConst(s string) *Term {
	if s == "" {
		return Const("str$empty", SV)
	}
	var sb strings.Builder
	for _, c := range s {
		if c >= 'a' && c <= 'z' || c >= 'A' && c <= 'Z' || c >= '0' && c <= '9' || c == '_' {
			sb.WriteRune(c)
		} else {
			sb.WriteString(fmt.Sprintf("$%x", c))
		}
	}
	n := sb.String()
	if len(n) > 60 {
		n = n[:60] + fmt.Sprintf("$h%x", hashStr(s))
	}
	return Const("str$"+n, SV)
}

func hashStr(s string) uint32 {
	var h uint32 = 2166136261
	for i := 0; i < len(s); i++ {
		h ^= uint32(s[i])
		h *= 16777619
	}
	return h
}

func (fc *FuncCtx) evalExpr(st *State, e ast.Expr) Val {
	tv, hasTV := fc.info.Types[e]
	if hasTV && tv.Value != nil {
		s := fc.sortOf(tv.Type)
		if t := constTerm(tv.Value, s); t != nil {
			return Val{T: t, Typ: tv.Type}
		}
	}
	if hasTV && tv.IsType() {
		return Val{TypeV: tv.Type}
	}
	// floating point is not modelled: any float-valued expression (other than a variable) is an unknown value, and a
	// comparison of floats an unknown boolean
	if hasTV && isFloatType(tv.Type) {
		if _, isId := ast.Unparen(e).(*ast.Ident); !isId {
			fc.note("floating point expression abstracted to an unknown value")
			return Val{T: fc.freshConst("flt", SV), Typ: tv.Type}
		}
	}
	if be, ok := ast.Unparen(e).(*ast.BinaryExpr); ok && hasTV {
		if lt, ok2 := fc.info.Types[be.X]; ok2 && isFloatType(lt.Type) && fc.sortOf(tv.Type).Kind == "Bool" {
			fc.note("floating point comparison abstracted to an unknown boolean")
			return Val{T: fc.freshConst("fltcmp", SBool), Typ: tv.Type}
		}
	}
	switch x := e.(type) {
	case *ast.ParenExpr:
		return fc.evalExpr(st, x.X)
	case *ast.BasicLit:
		fc.fail(x.Pos(), "unsupported literal %s", x.Value)
	case *ast.Ident:
		return fc.evalIdent(st, x)
	case *ast.SelectorExpr:
		return fc.evalSelector(st, x)
	case *ast.StarExpr:
		v := fc.evalExpr(st, x.X)
		if isStructPtr(v.Typ) {
			fc.nilCheck(st, v.T, x.Pos())
			return Val{T: v.T, Typ: pointee(v.Typ)}
		}
		l := fc.derefLoc(st, v, x.Pos())
		return Val{T: fc.readLoc(st, l), Typ: l.Typ}
	case *ast.UnaryExpr:
		return fc.evalUnary(st, x)
	case *ast.BinaryExpr:
		return fc.evalBinary(st, x)
	case *ast.CallExpr:
		return fc.evalCall(st, x)
	case *ast.IndexExpr:
		return fc.evalIndex(st, x)
	case *ast.IndexListExpr:
		// generic instantiation f[A,B]
		return fc.evalExpr(st, x.X)
	case *ast.SliceExpr:
		return fc.evalSliceExpr(st, x)
	case *ast.CompositeLit:
		return fc.evalComposite(st, x, tv.Type)
	case *ast.FuncLit:
		return fc.closureVal(st, x, tv.Type)
	case *ast.TypeAssertExpr:
		v := fc.evalExpr(st, x.X)
		rt := fc.info.TypeOf(e)
		if tup, ok := rt.(*types.Tuple); ok {
			okc := fc.freshConst("ok", SBool)
			return Val{Tuple: []Val{{T: fc.coerce(st, v, tup.At(0).Type()), Typ: tup.At(0).Type()}, {T: okc, Typ: types.Typ[types.Bool]}}}
		}
		return Val{T: fc.coerce(st, v, rt), Typ: rt}
	case *ast.KeyValueExpr:
		fc.fail(x.Pos(), "unexpected key-value")
	}
	fc.fail(e.Pos(), "unsupported expression %T", e)
	return Val{}
}

// coerce: change of static type between sorts (interface <-> concrete): box/unbox through UFs
func (fc *FuncCtx) coerce(st *State, v Val, to types.Type) *Term {
	ts := fc.sortOf(to)
	if v.T == nil {
		if v.Loc != nil {
			// pointer value escaping into a term: use a fresh address
			if v.Loc.Kind == "local" && v.Loc.Sort != nil && v.Loc.Obj != nil && fc.closureScan().assignCnt[v.Loc.Obj] <= 3 {
				// &local stored in the heap (x := ...; p.f = &x): a new cell holding the local's current value.
				// (assignCnt counts the address-taking twice; the local must not be assigned again.)
				if ev, ok := st.env[v.Loc.Obj]; ok && ev.T != nil && ev.T.Sort.Eq(v.Loc.Sort) {
					a := fc.newRef(st, "addr")
					key := fc.memKey(v.Loc.Sort)
					arr := fc.heapArr(st, key, v.Loc.Sort)
					st.heap[key] = fc.nameTerm(st, key, Store(arr, a, ev.T))
					fc.note("address of a single-assignment local stored as a fresh cell holding its value")
					return a
				}
			}
			return fc.freshConst("addr", SV)
		}
		return fc.freshConst("val", ts)
	}
	if v.T.Sort.Eq(ts) {
		return v.T
	}
	if v.T.Op == "nil" && len(v.T.Args) == 0 {
		switch ts.Kind {
		case "Slice":
			return MkSlice(&Term{Op: "const-array", Args: []*Term{fc.zeroElem(ts.Elem)}, Sort: ArrayOf(SInt, ts.Elem)}, IntLit(0))
		case "Map":
			return fc.emptyMap(ts, "nil")
		}
	}
	if ts.Kind == "V" {
		return App("box$"+strings.NewReplacer("(", "", ")", "", " ", "_").Replace(v.T.Sort.String()), SV, v.T)
	}
	if v.T.Sort.Kind == "V" {
		return App("unbox$"+strings.NewReplacer("(", "", ")", "", " ", "_").Replace(ts.String()), ts, v.T)
	}
	panic(engineError{fmt.Sprintf("cannot coerce %s to %s", v.T.Sort, ts)})
}

func (fc *FuncCtx) evalIdent(st *State, x *ast.Ident) Val {
	if x.Name == "_" {
		return Val{}
	}
	obj := fc.info.ObjectOf(x)
	switch o := obj.(type) {
	case *types.Nil:
		return Val{T: Const("nil", SV), Typ: types.Typ[types.UntypedNil]}
	case *types.Const:
		s := fc.sortOf(o.Type())
		if t := constTerm(o.Val(), s); t != nil {
			return Val{T: t, Typ: o.Type()}
		}
		fc.fail(x.Pos(), "unsupported constant %s", x.Name)
	case *types.Var:
		return fc.readVar(st, o, x.Pos())
	case *types.Func:
		return Val{FnObj: o, Typ: o.Type()}
	case *types.TypeName:
		return Val{TypeV: o.Type()}
	case *types.Builtin:
		return Val{}
	}
	fc.fail(x.Pos(), "unsupported identifier %s (%T)", x.Name, obj)
	return Val{}
}

func (fc *FuncCtx) readVar(st *State, o *types.Var, pos token.Pos) Val {
	if v, ok := st.env[o]; ok {
		return v
	}
	if o.Pkg() != nil && o.Parent() == o.Pkg().Scope() {
		// package-level variable: modelled as a constant
		fc.note("package-level variable treated as constant: " + o.Pkg().Name() + "." + o.Name())
		gv := fc.globalVal(o)
		if ts := o.Type().String(); (strings.HasSuffix(ts, "errs.Error") || ts == "error") && strings.HasPrefix(o.Name(), "Err") && gv.T.Sort.Kind == "V" {
			// sentinel errors (package-level errs.New values): non-nil and carrying no blame tags
			fc.note("package-level sentinel errors are non-nil, never reassigned and carry no identifiable-abort tag")
			st.assume(Not(Eq(gv.T, Const("nil", SV))))
			x := BVar("x!sent", SV)
			st.assume(Forall([]*Term{x}, Not(App("culprit", SBool, gv.T, x)), []*Term{App("culprit", SBool, gv.T, x)}))
		}
		return gv
	}
	// local declared but not yet in env (e.g. captured or declared in unsupported stmt)
	s := fc.sortOf(o.Type())
	t := fc.freshConst(o.Name(), s)
	v := Val{T: t, Typ: o.Type()}
	st.env[o] = v
	return v
}

func (fc *FuncCtx) globalVal(o *types.Var) Val {
	s := fc.sortOf(o.Type())
	return Val{T: Const("G$"+o.Pkg().Name()+"."+o.Name(), s), Typ: o.Type()}
}

func (fc *FuncCtx) evalSelector(st *State, x *ast.SelectorExpr) Val {
	if sel := fc.info.Selections[x]; sel != nil {
		switch sel.Kind() {
		case types.FieldVal:
			base := fc.evalExpr(st, x.X)
			l := fc.fieldLoc(st, base, sel, x.Pos())
			t := fc.readLoc(st, l)
			st.assume(fc.typeFacts(t, l.Typ))
			fc.existing(st, t, l.Typ)
			return Val{T: t, Typ: l.Typ}
		case types.MethodVal:
			base := fc.evalExpr(st, x.X)
			return Val{FnObj: sel.Obj().(*types.Func), Recv: &base, Typ: sel.Type()}
		case types.MethodExpr:
			return Val{FnObj: sel.Obj().(*types.Func), Typ: sel.Type()}
		}
	}
	// qualified identifier
	return fc.evalIdent(st, x.Sel)
}

func (fc *FuncCtx) evalUnary(st *State, x *ast.UnaryExpr) Val {
	typ := fc.info.TypeOf(x)
	switch x.Op {
	case token.AND:
		// address-of
		if cl, ok := ast.Unparen(x.X).(*ast.CompositeLit); ok {
			v := fc.evalComposite(st, cl, fc.info.TypeOf(cl))
			return Val{T: v.T, Typ: typ}
		}
		xt := fc.info.TypeOf(x.X)
		if isStruct(xt) && fc.bindOf(xt) == "" {
			// a struct object is identified with its address (structs bound to a value theory are cells instead)
			v := fc.evalExpr(st, x.X)
			return Val{T: v.T, Typ: typ}
		}
		l := fc.evalLoc(st, x.X)
		return Val{Loc: l, Typ: typ}
	case token.NOT:
		v := fc.evalExpr(st, x.X)
		return Val{T: Not(v.T), Typ: typ}
	case token.SUB:
		v := fc.evalExpr(st, x.X)
		return Val{T: fc.wrapInt(Sub(IntLit(0), v.T), typ), Typ: typ}
	case token.ADD:
		return fc.evalExpr(st, x.X)
	case token.XOR:
		v := fc.evalExpr(st, x.X)
		w, signed := intWidth(typ)
		if signed || w == 0 {
			return Val{T: Sub(Sub(IntLit(0), v.T), IntLit(1)), Typ: typ}
		}
		max := new(big.Int).Sub(new(big.Int).Lsh(big.NewInt(1), uint(w)), big.NewInt(1))
		return Val{T: Sub(IntLitS(max.String()), v.T), Typ: typ}
	case token.ARROW:
		fc.abstract("channel receive", x.Pos())
		return Val{T: fc.freshConst("recv", fc.sortOf(typ)), Typ: typ}
	}
	fc.fail(x.Pos(), "unsupported unary %s", x.Op)
	return Val{}
}

func (fc *FuncCtx) wrapInt(t *Term, typ types.Type) *Term {
	w, signed := intWidth(typ)
	if w == 0 || w == 64 || signed {
		if w == 64 || (signed && w != 0) {
			fc.note("64-bit/signed machine arithmetic treated as mathematical integers")
		}
		return t
	}
	m := new(big.Int).Lsh(big.NewInt(1), uint(w))
	return Mod(t, IntLitS(m.String()))
}

func litInt(t *Term) (*big.Int, bool) {
	if t.Op == "lit" && t.Sort.Kind == "Int" && !strings.HasPrefix(t.Lit, "(") {
		n, ok := new(big.Int).SetString(t.Lit, 10)
		return n, ok
	}
	return nil, false
}

func (fc *FuncCtx) evalBinary(st *State, x *ast.BinaryExpr) Val {
	typ := fc.info.TypeOf(x)
	if x.Op == token.LAND || x.Op == token.LOR {
		a := fc.evalExpr(st, x.X)
		st2 := st.clone()
		if x.Op == token.LAND {
			st2.assume(a.T)
		} else {
			st2.assume(Not(a.T))
		}
		base := st2.pc
		b := fc.evalExpr(st2, x.Y)
		// transfer facts, guarded
		var extra []*Term
		for n := st2.pc; n != base; n = n.parent {
			extra = append(extra, n.fact)
		}
		guard := a.T
		if x.Op == token.LOR {
			guard = Not(a.T)
		}
		for i := len(extra) - 1; i >= 0; i-- {
			st.assume(Implies(guard, extra[i]))
		}
		// env/heap side effects in conditions are not supported (calls with effects in && rhs)
		if x.Op == token.LAND {
			return Val{T: And(a.T, b.T), Typ: typ}
		}
		return Val{T: Or(a.T, b.T), Typ: typ}
	}
	a := fc.evalExpr(st, x.X)
	b := fc.evalExpr(st, x.Y)
	return fc.binop(st, x.Op.String(), a, b, typ, fc.info.TypeOf(x.X), x.Pos())
}

func (fc *FuncCtx) binop(st *State, op string, a, b Val, typ types.Type, operandTyp types.Type, pos token.Pos) Val {
	if a.T == nil || b.T == nil {
		// pointer comparisons with Loc values etc.
		if op == "==" || op == "!=" {
			if a.Loc != nil && b.T != nil && b.T.Op == "nil" || b.Loc != nil && a.T != nil && a.T.Op == "nil" {
				return Val{T: BoolLit(op == "!="), Typ: typ}
			}
			return Val{T: fc.freshConst("cmp", SBool), Typ: typ}
		}
		fc.fail(pos, "binary op on non-term values")
	}
	at, bt := a.T, b.T
	if !at.Sort.Eq(bt.Sort) {
		// interface vs concrete comparison
		if at.Sort.Kind == "V" {
			bt = fc.coerce(st, b, a.Typ)
			if !bt.Sort.Eq(at.Sort) {
				bt = App("box$"+strings.NewReplacer("(", "", ")", "", " ", "_").Replace(b.T.Sort.String()), SV, b.T)
			}
		} else if bt.Sort.Kind == "V" {
			at = App("box$"+strings.NewReplacer("(", "", ")", "", " ", "_").Replace(a.T.Sort.String()), SV, a.T)
		}
	}
	switch op {
	case "==":
		return Val{T: Eq(at, bt), Typ: typ}
	case "!=":
		return Val{T: Not(Eq(at, bt)), Typ: typ}
	}
	if at.Sort.Kind == "Bool" {
		switch op {
		case "&&", "&":
			return Val{T: And(at, bt), Typ: typ}
		case "||", "|":
			return Val{T: Or(at, bt), Typ: typ}
		case "==>":
			return Val{T: Implies(at, bt), Typ: typ}
		case "<==>":
			return Val{T: Eq(at, bt), Typ: typ}
		}
	}
	if at.Sort.Kind != "Int" {
		// string concatenation, etc.
		if op == "+" {
			return Val{T: App("str$cat", SV, at, bt), Typ: typ}
		}
		fc.fail(pos, "binary %s on sort %s", op, at.Sort)
	}
	isBound := fc.bindOf(operandTyp) != ""
	w, _ := intWidth(operandTyp)
	switch op {
	case "<":
		return Val{T: Lt(at, bt), Typ: typ}
	case "<=":
		return Val{T: Le(at, bt), Typ: typ}
	case ">":
		return Val{T: Gt(at, bt), Typ: typ}
	case ">=":
		return Val{T: Ge(at, bt), Typ: typ}
	case "+":
		if isBound {
			return Val{T: Add(at, bt), Typ: typ}
		}
		return Val{T: fc.wrapInt(Add(at, bt), typ), Typ: typ}
	case "-":
		if isBound {
			return Val{T: Sub(at, bt), Typ: typ}
		}
		return Val{T: fc.wrapInt(Sub(at, bt), typ), Typ: typ}
	case "*":
		if isBound {
			return Val{T: Mul(at, bt), Typ: typ}
		}
		return Val{T: fc.wrapInt(Mul(at, bt), typ), Typ: typ}
	case "/":
		fc.divCheck(st, bt, pos)
		// Go truncates toward zero; SMT div floors. Equal for non-negative operands.
		if _, signed := intWidth(operandTyp); signed {
			q := Ite(Ge(at, IntLit(0)), Div(at, bt), Sub(IntLit(0), Div(Sub(IntLit(0), at), bt)))
			if n, ok := litInt(bt); ok && n.Sign() > 0 {
				return Val{T: q, Typ: typ}
			}
			// general signed division: sign of divisor too
			q = Ite(Ge(at, IntLit(0)),
				Ite(Gt(bt, IntLit(0)), Div(at, bt), Sub(IntLit(0), Div(at, Sub(IntLit(0), bt)))),
				Ite(Gt(bt, IntLit(0)), Sub(IntLit(0), Div(Sub(IntLit(0), at), bt)), Div(Sub(IntLit(0), at), Sub(IntLit(0), bt))))
			return Val{T: q, Typ: typ}
		}
		return Val{T: Div(at, bt), Typ: typ}
	case "%":
		fc.divCheck(st, bt, pos)
		if _, signed := intWidth(operandTyp); signed {
			// Go: result has sign of dividend
			absb := Ite(Ge(bt, IntLit(0)), bt, Sub(IntLit(0), bt))
			if n, ok := litInt(bt); ok && n.Sign() > 0 {
				absb = bt
			}
			r := Ite(Ge(at, IntLit(0)), Mod(at, absb), Sub(IntLit(0), Mod(Sub(IntLit(0), at), absb)))
			return Val{T: r, Typ: typ}
		}
		return Val{T: Mod(at, bt), Typ: typ}
	case "<<":
		var r *Term
		if n, ok := litInt(bt); ok && n.IsInt64() && n.Int64() < 200 {
			m := new(big.Int).Lsh(big.NewInt(1), uint(n.Int64()))
			r = Mul(at, IntLitS(m.String()))
		} else {
			r = Mul(at, mk("pow2", SInt, bt))
		}
		return Val{T: fc.wrapShift(r, typ), Typ: typ}
	case ">>":
		if n, ok := litInt(bt); ok && n.IsInt64() && n.Int64() < 200 {
			m := new(big.Int).Lsh(big.NewInt(1), uint(n.Int64()))
			return Val{T: Div(at, IntLitS(m.String())), Typ: typ}
		}
		return Val{T: Div(at, mk("pow2", SInt, bt)), Typ: typ}
	case "&", "|", "^", "&^":
		if isChoice(operandTyp) {
			fc.note("ct.Choice/ct.Bool values are 0 or 1 (type invariant of pkg/base/ct)")
			a1, b1 := Eq(at, IntLit(1)), Eq(bt, IntLit(1))
			switch op {
			case "&":
				return Val{T: ctBool(And(a1, b1)), Typ: typ}
			case "|":
				return Val{T: ctBool(Or(a1, b1)), Typ: typ}
			case "^":
				return Val{T: ctBool(Not(Eq(a1, b1))), Typ: typ}
			case "&^":
				return Val{T: ctBool(And(a1, Not(b1))), Typ: typ}
			}
		}
		return Val{T: fc.bitop(op, at, bt, w), Typ: typ}
	}
	fc.fail(pos, "unsupported binary op %s", op)
	return Val{}
}

func isChoice(t types.Type) bool {
	if t == nil {
		return false
	}
	n, ok := types.Unalias(t).(*types.Named)
	return ok && n.Obj().Name() == "Choice" && n.Obj().Pkg() != nil && strings.HasSuffix(n.Obj().Pkg().Path(), "/base/ct")
}

func (fc *FuncCtx) wrapShift(t *Term, typ types.Type) *Term {
	w, signed := intWidth(typ)
	if w == 0 || signed {
		return t
	}
	m := new(big.Int).Lsh(big.NewInt(1), uint(w))
	return Mod(t, IntLitS(m.String()))
}

func isPow2Minus1(n *big.Int) (int, bool) {
	m := new(big.Int).Add(n, big.NewInt(1))
	if m.Sign() > 0 && new(big.Int).And(m, n).Sign() == 0 {
		return m.BitLen() - 1, true
	}
	return 0, false
}

func (fc *FuncCtx) bitop(op string, a, b *Term, width int) *Term {
	// literal masks
	if op == "&" {
		if n, ok := litInt(b); ok {
			if k, ok := isPow2Minus1(n); ok {
				return Mod(a, IntLitS(new(big.Int).Lsh(big.NewInt(1), uint(k)).String()))
			}
			if n.Sign() > 0 && new(big.Int).And(n, new(big.Int).Sub(n, big.NewInt(1))).Sign() == 0 {
				// single bit 2^k ; the bit of an 8-bit and/or/xor is the min/max/difference of the operands' bits
				bitOf := func(x *Term) *Term { return Mod(Div(x, IntLitS(n.String())), IntLit(2)) }
				if len(a.Args) == 2 && n.Cmp(big.NewInt(256)) < 0 {
					switch a.Op {
					case "and8":
						return Mul(mk("bmin", SInt, bitOf(a.Args[0]), bitOf(a.Args[1])), IntLitS(n.String()))
					case "or8":
						return Mul(mk("bmax", SInt, bitOf(a.Args[0]), bitOf(a.Args[1])), IntLitS(n.String()))
					case "xor8":
						return Mul(mk("bx", SInt, bitOf(a.Args[0]), bitOf(a.Args[1])), IntLitS(n.String()))
					}
				}
				return Mul(bitOf(a), IntLitS(n.String()))
			}
		}
		if n, ok := litInt(a); ok {
			if _, ok := isPow2Minus1(n); ok {
				return fc.bitop(op, b, a, width)
			}
		}
	}
	if width == 8 || width == 0 && false {
		switch op {
		case "&":
			return mk("and8", SInt, a, b)
		case "|":
			return mk("or8", SInt, a, b)
		case "^":
			return mk("xor8", SInt, a, b)
		case "&^":
			return mk("andnot8", SInt, a, b)
		}
	}
	fc.note("wide bitwise operation modelled as uninterpreted function: " + op)
	name := map[string]string{"&": "bvand", "|": "bvor", "^": "bvxor", "&^": "bvandnot"}[op]
	return App(fmt.Sprintf("%s%d", name, width), SInt, a, b)
}

func (fc *FuncCtx) divCheck(st *State, d *Term, pos token.Pos) {
	if n, ok := litInt(d); ok && n.Sign() != 0 {
		return
	}
	if fc.contract != nil && fc.contract.NoPanic && fc.noOblig == 0 {
		fc.emit(st, "div", "divisor non-zero", Not(Eq(d, IntLit(0))), pos, "")
	}
	st.assume(Not(Eq(d, IntLit(0))))
}

func (fc *FuncCtx) evalIndex(st *State, x *ast.IndexExpr) Val {
	bt := fc.info.TypeOf(x.X)
	if bt == nil {
		fc.fail(x.Pos(), "index on untyped")
	}
	// generic function instantiation
	if _, ok := bt.(*types.Signature); ok {
		return fc.evalExpr(st, x.X)
	}
	typ := fc.info.TypeOf(x)
	base := fc.evalExpr(st, x.X)
	idx := fc.evalExpr(st, x.Index)
	but := types.Unalias(bt).Underlying()
	if p, ok := but.(*types.Pointer); ok {
		l := fc.derefLoc(st, base, x.Pos())
		base = Val{T: fc.readLoc(st, l), Typ: p.Elem()}
		but = p.Elem().Underlying()
	}
	if tp, ok := types.Unalias(bt).(*types.TypeParam); ok {
		but = coreOf(tp).Underlying()
	}
	switch tt := but.(type) {
	case *types.Map:
		v := Select(MapArr(base.T), idx.T)
		if tup, ok := typ.(*types.Tuple); ok {
			return Val{Tuple: []Val{{T: v, Typ: tup.At(0).Type()}, {T: Select(MapDom(base.T), idx.T), Typ: types.Typ[types.Bool]}}}
		}
		// missing key yields zero value
		zero := fc.zeroVal(tt.Elem(), "mz")
		r := v
		if len(zero.Args) == 0 && zero.Op != "mk-slice" && !zero.UF || zero.Op == "nil" || zero.Op == "lit" {
			r = Ite(Select(MapDom(base.T), idx.T), v, zero)
		}
		st.assume(fc.typeFacts(v, tt.Elem()))
		return Val{T: r, Typ: typ}
	case *types.Slice, *types.Array:
		fc.boundsCheck(st, base.T, idx.T, x.Pos())
		v := SliceAt(base.T, idx.T)
		st.assume(fc.typeFacts(v, typ))
		return Val{T: v, Typ: typ}
	case *types.Basic: // string indexing
		v := App("str$at", SInt, base.T, idx.T)
		st.assume(And(Le(IntLit(0), v), Le(v, IntLit(255))))
		return Val{T: v, Typ: typ}
	}
	fc.fail(x.Pos(), "unsupported index on %v", bt)
	return Val{}
}

func (fc *FuncCtx) evalSliceExpr(st *State, x *ast.SliceExpr) Val {
	typ := fc.info.TypeOf(x)
	base := fc.evalExpr(st, x.X)
	bt := fc.info.TypeOf(x.X)
	if p, ok := types.Unalias(bt).Underlying().(*types.Pointer); ok {
		l := fc.derefLoc(st, base, x.Pos())
		base = Val{T: fc.readLoc(st, l), Typ: p.Elem()}
	}
	if base.T == nil || base.T.Sort.Kind != "Slice" {
		// string slicing etc.
		fc.note("string/opaque slicing modelled as uninterpreted")
		return Val{T: fc.freshConst("sliced", fc.sortOf(typ)), Typ: typ}
	}
	lo := IntLit(0)
	hi := SliceLen(base.T)
	if x.Low != nil {
		lo = fc.evalExpr(st, x.Low).T
	}
	if x.High != nil {
		hi = fc.evalExpr(st, x.High).T
	}
	return Val{T: fc.sliceOf(st, base.T, lo, hi, x.Pos(), true), Typ: typ}
}

func (fc *FuncCtx) sliceOf(st *State, s, lo, hi *Term, pos token.Pos, check bool) *Term {
	if check {
		if fc.contract != nil && fc.contract.NoPanic && fc.noOblig == 0 {
			// note: Go allows hi up to cap; we model cap == len (conservative)
			fc.emit(st, "bounds", "slice bounds", And(Le(IntLit(0), lo), Le(lo, hi), Le(hi, SliceLen(s))), pos, "")
		}
		st.assume(And(Le(IntLit(0), lo), Le(lo, hi)))
	}
	if l, ok := litInt(lo); ok && l.Sign() == 0 {
		return fc.nameTerm(st, "sub", MkSlice(SliceArr(s), hi))
	}
	r := fc.freshConst("sub", s.Sort)
	j := BVar("j!s", SInt)
	st.assume(Eq(SliceLen(r), Sub(hi, lo)))
	st.assume(Forall([]*Term{j}, Eq(SliceAt(r, j), SliceAt(s, Add(j, lo))), []*Term{SliceAt(r, j)}))
	return r
}

func (fc *FuncCtx) evalComposite(st *State, x *ast.CompositeLit, typ types.Type) Val {
	if typ == nil {
		typ = fc.info.TypeOf(x)
	}
	under := types.Unalias(typ).Underlying()
	if p, ok := under.(*types.Pointer); ok {
		under = p.Elem().Underlying()
	}
	switch tt := under.(type) {
	case *types.Struct:
		ref := fc.newRef(st, "new")
		set := map[int]bool{}
		for i, el := range x.Elts {
			var f *types.Var
			var ve ast.Expr
			if kv, ok := el.(*ast.KeyValueExpr); ok {
				name := kv.Key.(*ast.Ident).Name
				for j := 0; j < tt.NumFields(); j++ {
					if tt.Field(j).Name() == name {
						f = tt.Field(j)
						set[j] = true
					}
				}
				ve = kv.Value
			} else {
				f = tt.Field(i)
				set[i] = true
				ve = el
			}
			if f == nil {
				fc.fail(el.Pos(), "unknown field in composite literal")
			}
			v := fc.evalExprTo(st, ve, f.Type())
			l := &Loc{Kind: "field", Base: ref, Key: fc.fieldKey(f), Sort: fc.sortOf(f.Origin().Type()), Typ: f.Type()}
			fc.writeLoc(st, l, v)
		}
		for j := 0; j < tt.NumFields(); j++ {
			if !set[j] {
				f := tt.Field(j)
				l := &Loc{Kind: "field", Base: ref, Key: fc.fieldKey(f), Sort: fc.sortOf(f.Origin().Type()), Typ: f.Type()}
				fc.writeLoc(st, l, fc.zeroVal(f.Type(), f.Name()))
			}
		}
		return Val{T: ref, Typ: typ}
	case *types.Slice, *types.Array:
		var elemT types.Type
		if s, ok := tt.(*types.Slice); ok {
			elemT = s.Elem()
		} else {
			elemT = tt.(*types.Array).Elem()
		}
		es := fc.sortOf(elemT)
		var arr *Term
		// elements beyond the length are never observable: use a canonical base so that equal literals are equal terms
		if z := fc.zeroVal(elemT, "lit"); z.Op == "lit" || z.Op == "nil" {
			arr = &Term{Op: "const-array", Args: []*Term{z}, Sort: ArrayOf(SInt, es)}
		} else {
			arr = fc.freshConst("lit", ArrayOf(SInt, es))
		}
		n := int64(0)
		cur := arr
		for _, el := range x.Elts {
			ve := el
			if kv, ok := el.(*ast.KeyValueExpr); ok {
				ktv := fc.info.Types[kv.Key]
				if ktv.Value != nil {
					n, _ = constant.Int64Val(ktv.Value)
				}
				ve = kv.Value
			}
			var v *Term
			if cl, ok := ve.(*ast.CompositeLit); ok && cl.Type == nil {
				v = fc.evalComposite(st, cl, elemT).T
			} else {
				v = fc.evalExprTo(st, ve, elemT)
			}
			cur = Store(cur, IntLit(n), v)
			n++
		}
		ln := n
		if a, ok := tt.(*types.Array); ok {
			ln = a.Len()
		}
		return Val{T: fc.nameTerm(st, "lit", MkSlice(cur, IntLit(ln))), Typ: typ}
	case *types.Map:
		s := fc.sortOf(typ)
		m := fc.emptyMap(s, "lit")
		for _, el := range x.Elts {
			kv := el.(*ast.KeyValueExpr)
			k := fc.evalExprTo(st, kv.Key, tt.Key())
			v := fc.evalExprTo(st, kv.Value, tt.Elem())
			m = MkMap(Store(MapArr(m), k, v), Store(MapDom(m), k, TTrue))
		}
		return Val{T: fc.nameTerm(st, "mlit", m), Typ: typ}
	}
	fc.fail(x.Pos(), "unsupported composite literal of %v", typ)
	return Val{}
}

// evalExprTo evaluates e and coerces to the sort of type to
func (fc *FuncCtx) evalExprTo(st *State, e ast.Expr, to types.Type) *Term {
	v := fc.evalExpr(st, e)
	return fc.coerce(st, v, to)
}

func isFloatType(t types.Type) bool {
	if t == nil {
		return false
	}
	b, ok := types.Unalias(t).Underlying().(*types.Basic)
	return ok && b.Info()&types.IsFloat != 0
}
