package main

import (
	"fmt"
	"math/big"
	"sort"
	"strings"
)

// ---------------------------------------------------------------- sorts

type Sort struct {
	Kind string // "Int","Bool","V","Slice","Map"
	Elem *Sort  // Slice elem / Map value
	Key  *Sort  // Map key
}

var (
	SInt  = &Sort{Kind: "Int"}
	SBool = &Sort{Kind: "Bool"}
	SV    = &Sort{Kind: "V"}
)

func SliceOf(e *Sort) *Sort   { return &Sort{Kind: "Slice", Elem: e} }
func MapOf(k, v *Sort) *Sort  { return &Sort{Kind: "Map", Key: k, Elem: v} }
func ArrayOf(k, v *Sort) *Sort { return &Sort{Kind: "Array", Key: k, Elem: v} }

func (s *Sort) String() string {
	switch s.Kind {
	case "Int", "Bool", "V":
		return s.Kind
	case "Slice":
		return "(Slice " + s.Elem.String() + ")"
	case "Map":
		return "(GoMap " + s.Key.String() + " " + s.Elem.String() + ")"
	case "Array":
		return "(Array " + s.Key.String() + " " + s.Elem.String() + ")"
	}
	return "?" + s.Kind
}

func (s *Sort) Eq(o *Sort) bool { return s.String() == o.String() }

// ---------------------------------------------------------------- terms

type Term struct {
	Op    string // SMT operator / function / constant name; "lit" for literals; "forall","exists","let"
	Args  []*Term
	Sort  *Sort
	Lit   string   // for Op=="lit"
	Bound []*Term  // bound variables for quantifiers (Op=="var" terms)
	Pats  [][]*Term // optional patterns
	UF    bool     // Op is an uninterpreted function/constant that needs a declaration
}

func mk(op string, s *Sort, args ...*Term) *Term { return &Term{Op: op, Args: args, Sort: s} }

func IntLit(n int64) *Term {
	if n < 0 {
		return &Term{Op: "lit", Lit: fmt.Sprintf("(- %d)", -n), Sort: SInt}
	}
	return &Term{Op: "lit", Lit: fmt.Sprintf("%d", n), Sort: SInt}
}
func IntLitS(s string) *Term {
	if strings.HasPrefix(s, "-") {
		return &Term{Op: "lit", Lit: "(- " + s[1:] + ")", Sort: SInt}
	}
	return &Term{Op: "lit", Lit: s, Sort: SInt}
}
func BoolLit(b bool) *Term {
	if b {
		return &Term{Op: "lit", Lit: "true", Sort: SBool}
	}
	return &Term{Op: "lit", Lit: "false", Sort: SBool}
}

var TTrue = BoolLit(true)
var TFalse = BoolLit(false)

func (t *Term) IsTrue() bool  { return t.Op == "lit" && t.Lit == "true" }
func (t *Term) IsFalse() bool { return t.Op == "lit" && t.Lit == "false" }

// Const: uninterpreted constant
func Const(name string, s *Sort) *Term { return &Term{Op: name, Sort: s, UF: true} }

// App: uninterpreted function application
func App(name string, s *Sort, args ...*Term) *Term {
	return &Term{Op: name, Args: args, Sort: s, UF: true}
}
func BVar(name string, s *Sort) *Term { return &Term{Op: "var", Lit: name, Sort: s} }

func And(ts ...*Term) *Term {
	var out []*Term
	for _, t := range ts {
		if t == nil || t.IsTrue() {
			continue
		}
		if t.IsFalse() {
			return TFalse
		}
		if t.Op == "and" {
			out = append(out, t.Args...)
		} else {
			out = append(out, t)
		}
	}
	if len(out) == 0 {
		return TTrue
	}
	if len(out) == 1 {
		return out[0]
	}
	return mk("and", SBool, out...)
}
func Or(ts ...*Term) *Term {
	var out []*Term
	for _, t := range ts {
		if t == nil || t.IsFalse() {
			continue
		}
		if t.IsTrue() {
			return TTrue
		}
		out = append(out, t)
	}
	if len(out) == 0 {
		return TFalse
	}
	if len(out) == 1 {
		return out[0]
	}
	return mk("or", SBool, out...)
}
func Not(t *Term) *Term {
	if t.IsTrue() {
		return TFalse
	}
	if t.IsFalse() {
		return TTrue
	}
	if t.Op == "not" {
		return t.Args[0]
	}
	return mk("not", SBool, t)
}
func Implies(a, b *Term) *Term {
	if a.IsTrue() {
		return b
	}
	if a.IsFalse() || b.IsTrue() {
		return TTrue
	}
	return mk("=>", SBool, a, b)
}
func Eq(a, b *Term) *Term {
	if !a.Sort.Eq(b.Sort) {
		panic(fmt.Sprintf("Eq sort mismatch: %s:%s vs %s:%s", a, a.Sort, b, b.Sort))
	}
	return mk("=", SBool, a, b)
}
func Ite(c, a, b *Term) *Term {
	if c.IsTrue() {
		return a
	}
	if c.IsFalse() {
		return b
	}
	if !a.Sort.Eq(b.Sort) {
		panic(fmt.Sprintf("Ite sort mismatch: %s vs %s", a.Sort, b.Sort))
	}
	return mk("ite", a.Sort, c, a, b)
}
func Add(a, b *Term) *Term { return mk("+", SInt, a, b) }
func Sub(a, b *Term) *Term { return mk("-", SInt, a, b) }
func Mul(a, b *Term) *Term { return mk("*", SInt, a, b) }
func Div(a, b *Term) *Term { return mk("div", SInt, a, b) }
func Mod(a, b *Term) *Term { return mk("mod", SInt, a, b) }
func Le(a, b *Term) *Term  { return mk("<=", SBool, a, b) }
func Lt(a, b *Term) *Term  { return mk("<", SBool, a, b) }
func Ge(a, b *Term) *Term  { return mk(">=", SBool, a, b) }
func Gt(a, b *Term) *Term  { return mk(">", SBool, a, b) }

func Select(arr, idx *Term) *Term { return mk("select", arr.Sort.Elem, arr, idx) }
func Store(arr, idx, v *Term) *Term {
	if !arr.Sort.Elem.Eq(v.Sort) {
		panic(fmt.Sprintf("Store sort mismatch: arr %s val %s (%s)", arr.Sort, v.Sort, v))
	}
	return mk("store", arr.Sort, arr, idx, v)
}

// slices: datatype (Slice T) = mk-slice(sarr (Array Int T), slen Int)
func SliceArr(s *Term) *Term { return mk("sarr", ArrayOf(SInt, s.Sort.Elem), s) }
func SliceLen(s *Term) *Term { return mk("slen", SInt, s) }
func MkSlice(arr, n *Term) *Term {
	return &Term{Op: "mk-slice", Args: []*Term{arr, n}, Sort: SliceOf(arr.Sort.Elem)}
}
func SliceAt(s, i *Term) *Term { return Select(SliceArr(s), i) }

// maps: datatype (GoMap K T) = mk-map(marr (Array K T), mdom (Array K Bool))
func MapArr(m *Term) *Term { return mk("marr", ArrayOf(m.Sort.Key, m.Sort.Elem), m) }
func MapDom(m *Term) *Term { return mk("mdom", ArrayOf(m.Sort.Key, SBool), m) }
func MkMap(arr, dom *Term) *Term {
	return &Term{Op: "mk-map", Args: []*Term{arr, dom}, Sort: MapOf(arr.Sort.Key, arr.Sort.Elem)}
}

func Forall(vars []*Term, body *Term, pats ...[]*Term) *Term {
	if len(vars) == 0 {
		return body
	}
	return &Term{Op: "forall", Bound: vars, Args: []*Term{body}, Sort: SBool, Pats: pats}
}
func Exists(vars []*Term, body *Term) *Term {
	if len(vars) == 0 {
		return body
	}
	return &Term{Op: "exists", Bound: vars, Args: []*Term{body}, Sort: SBool}
}

// ---------------------------------------------------------------- printing

func smtName(n string) string {
	ok := true
	for _, c := range n {
		if !(c >= 'a' && c <= 'z' || c >= 'A' && c <= 'Z' || c >= '0' && c <= '9' || strings.ContainsRune("_.!$@%^&*-+<>=/?~", c)) {
			ok = false
			break
		}
	}
	if ok && len(n) > 0 && !(n[0] >= '0' && n[0] <= '9') {
		return n
	}
	return "|" + strings.ReplaceAll(n, "|", "_") + "|"
}

func (t *Term) String() string {
	var sb strings.Builder
	t.write(&sb)
	return sb.String()
}

func (t *Term) write(sb *strings.Builder) {
	switch t.Op {
	case "lit":
		sb.WriteString(t.Lit)
		return
	case "var":
		sb.WriteString(smtName(t.Lit))
		return
	case "forall", "exists":
		sb.WriteString("(" + t.Op + " (")
		for _, v := range t.Bound {
			sb.WriteString("(" + smtName(v.Lit) + " " + v.Sort.String() + ")")
		}
		sb.WriteString(") ")
		if len(t.Pats) > 0 {
			sb.WriteString("(! ")
		}
		t.Args[0].write(sb)
		if len(t.Pats) > 0 {
			for _, p := range t.Pats {
				sb.WriteString(" :pattern (")
				for i, x := range p {
					if i > 0 {
						sb.WriteString(" ")
					}
					x.write(sb)
				}
				sb.WriteString(")")
			}
			sb.WriteString(")")
		}
		sb.WriteString(")")
		return
	case "mk-slice", "mk-map", "const-array":
		// need "as" qualification for const arrays only
	}
	if t.Op == "const-array" && t.Args[0].Op != "lit" {
		// cvc5 accepts only values in constant arrays: use one canonical declared array per sort instead
		sb.WriteString(smtName(zarrName(t.Sort)))
		return
	}
	if t.Op == "const-array" {
		sb.WriteString("((as const " + t.Sort.String() + ") ")
		t.Args[0].write(sb)
		sb.WriteString(")")
		return
	}
	if len(t.Args) == 0 {
		sb.WriteString(smtName(t.Op))
		return
	}
	sb.WriteString("(" + smtName(t.Op))
	for _, a := range t.Args {
		sb.WriteString(" ")
		a.write(sb)
	}
	sb.WriteString(")")
}

// decls collects uninterpreted symbols
type declSet struct {
	funs  map[string]string // name -> declaration line
	order []string
}

func newDeclSet() *declSet { return &declSet{funs: map[string]string{}} }

func zarrName(s *Sort) string {
	return "zarr$" + strings.NewReplacer("(", "", ")", "", " ", "_").Replace(s.String())
}

func (d *declSet) collect(t *Term) {
	if t == nil {
		return
	}
	if t.Op == "const-array" && t.Args[0].Op != "lit" {
		n := zarrName(t.Sort)
		if _, ok := d.funs[n]; !ok {
			d.funs[n] = fmt.Sprintf("(declare-fun %s () %s)", smtName(n), t.Sort.String())
			d.order = append(d.order, n)
		}
		return
	}
	if t.UF {
		if _, ok := d.funs[t.Op]; !ok {
			var as []string
			for _, a := range t.Args {
				as = append(as, a.Sort.String())
			}
			d.funs[t.Op] = fmt.Sprintf("(declare-fun %s (%s) %s)", smtName(t.Op), strings.Join(as, " "), t.Sort.String())
			d.order = append(d.order, t.Op)
		}
	}
	for _, a := range t.Args {
		d.collect(a)
	}
	for _, p := range t.Pats {
		for _, x := range p {
			d.collect(x)
		}
	}
}

var smtPrelude = strings.Replace(`(declare-sort V 0)
(declare-datatypes ((Slice 1)) ((par (T) ((mk-slice (sarr (Array Int T)) (slen Int))))))
(declare-datatypes ((GoMap 2)) ((par (K T) ((mk-map (marr (Array K T)) (mdom (Array K Bool)))))))
(declare-fun nil () V)
%POW2%
(define-fun bit ((x Int) (k Int)) Int (mod (div x (pow2 k)) 2))
(define-fun bmax ((a Int) (b Int)) Int (ite (>= a b) a b))
(define-fun bmin ((a Int) (b Int)) Int (ite (<= a b) a b))
(define-fun or8 ((a Int) (b Int)) Int (+ (bmax (mod a 2) (mod b 2)) (* 2 (bmax (mod (div a 2) 2) (mod (div b 2) 2))) (* 4 (bmax (mod (div a 4) 2) (mod (div b 4) 2))) (* 8 (bmax (mod (div a 8) 2) (mod (div b 8) 2))) (* 16 (bmax (mod (div a 16) 2) (mod (div b 16) 2))) (* 32 (bmax (mod (div a 32) 2) (mod (div b 32) 2))) (* 64 (bmax (mod (div a 64) 2) (mod (div b 64) 2))) (* 128 (bmax (mod (div a 128) 2) (mod (div b 128) 2)))))
(define-fun and8 ((a Int) (b Int)) Int (+ (bmin (mod a 2) (mod b 2)) (* 2 (bmin (mod (div a 2) 2) (mod (div b 2) 2))) (* 4 (bmin (mod (div a 4) 2) (mod (div b 4) 2))) (* 8 (bmin (mod (div a 8) 2) (mod (div b 8) 2))) (* 16 (bmin (mod (div a 16) 2) (mod (div b 16) 2))) (* 32 (bmin (mod (div a 32) 2) (mod (div b 32) 2))) (* 64 (bmin (mod (div a 64) 2) (mod (div b 64) 2))) (* 128 (bmin (mod (div a 128) 2) (mod (div b 128) 2)))))
(define-fun bx ((a Int) (b Int)) Int (ite (= a b) 0 1))
(define-fun xor8 ((a Int) (b Int)) Int (+ (bx (mod a 2) (mod b 2)) (* 2 (bx (mod (div a 2) 2) (mod (div b 2) 2))) (* 4 (bx (mod (div a 4) 2) (mod (div b 4) 2))) (* 8 (bx (mod (div a 8) 2) (mod (div b 8) 2))) (* 16 (bx (mod (div a 16) 2) (mod (div b 16) 2))) (* 32 (bx (mod (div a 32) 2) (mod (div b 32) 2))) (* 64 (bx (mod (div a 64) 2) (mod (div b 64) 2))) (* 128 (bx (mod (div a 128) 2) (mod (div b 128) 2)))))
(define-fun andnot8 ((a Int) (b Int)) Int (and8 a (- 255 (mod b 256))))
`, "%POW2%", pow2Def(), 1)

// Query renders a full SMT-LIB script: assumptions, negated goal.
func renderQuery(axioms []*Term, assumptions []*Term, goal *Term, extraDecls []string, wantModel bool) string {
	ds := newDeclSet()
	for _, a := range axioms {
		ds.collect(a)
	}
	for _, a := range assumptions {
		ds.collect(a)
	}
	if goal != nil {
		ds.collect(goal)
	}
	var sb strings.Builder
	if wantModel {
		sb.WriteString("(set-option :produce-models true)\n")
	}
	sb.WriteString("(set-logic ALL)\n")
	sb.WriteString(smtPrelude)
	for _, d := range extraDecls {
		sb.WriteString(d + "\n")
	}
	names := append([]string{}, ds.order...)
	sort.Strings(names)
	for _, n := range names {
		if n == "nil" {
			continue
		}
		sb.WriteString(ds.funs[n] + "\n")
	}
	// distinct string literals denote distinct strings (and none of them is nil)
	var strs []string
	for _, n := range names {
		if strings.HasPrefix(n, "str$") && n != "str$len" && n != "str$at" && n != "str$cat" && n != "str$bytes" && !strings.HasPrefix(n, "str$of") && strings.Contains(ds.funs[n], " () V)") {
			strs = append(strs, smtName(n))
		}
	}
	if len(strs) >= 1 {
		strs = append(strs, "nil")
	}
	if len(strs) >= 2 {
		sb.WriteString("(assert (distinct " + strings.Join(strs, " ") + "))\n")
	}
	// boxing a value into the universal sort is injective
	for _, n := range names {
		if n == "box$Int" {
			if _, ok := ds.funs["unbox$Int"]; !ok {
				sb.WriteString("(declare-fun " + smtName("unbox$Int") + " (V) Int)\n")
			}
			sb.WriteString("(assert (forall ((x!bx Int)) (! (= (" + smtName("unbox$Int") + " (" + smtName("box$Int") + " x!bx)) x!bx) :pattern ((" + smtName("box$Int") + " x!bx)))))\n")
		}
	}
	for _, a := range axioms {
		sb.WriteString("(assert " + a.String() + ")\n")
	}
	for _, a := range assumptions {
		sb.WriteString("(assert " + a.String() + ")\n")
	}
	if goal != nil {
		sb.WriteString("(assert (not " + goal.String() + "))\n")
	}
	sb.WriteString("(check-sat)\n")
	if wantModel {
		sb.WriteString("(get-model)\n")
	}
	return sb.String()
}

// substitute replaces bound variable/constant names
func subst(t *Term, m map[string]*Term) *Term {
	if t == nil {
		return nil
	}
	if (t.Op == "var") && len(t.Args) == 0 {
		if r, ok := m["var:"+t.Lit]; ok {
			return r
		}
		return t
	}
	if t.UF && len(t.Args) == 0 {
		if r, ok := m[t.Op]; ok {
			return r
		}
		return t
	}
	if len(t.Args) == 0 {
		return t
	}
	changed := false
	na := make([]*Term, len(t.Args))
	for i, a := range t.Args {
		na[i] = subst(a, m)
		if na[i] != a {
			changed = true
		}
	}
	var np [][]*Term
	for _, p := range t.Pats {
		var q []*Term
		for _, x := range p {
			y := subst(x, m)
			if y != x {
				changed = true
			}
			q = append(q, y)
		}
		np = append(np, q)
	}
	if !changed {
		return t
	}
	c := *t
	c.Args = na
	c.Pats = np
	return &c
}

func pow2Def() string {
	var sb strings.Builder
	sb.WriteString("(define-fun pow2 ((k Int)) Int ")
	for i := 0; i <= 64; i++ {
		v := new(big.Int).Lsh(big.NewInt(1), uint(i))
		sb.WriteString(fmt.Sprintf("(ite (= k %d) %s ", i, v.String()))
	}
	sb.WriteString("0")
	for i := 0; i <= 64; i++ {
		sb.WriteString(")")
	}
	sb.WriteString(")")
	return sb.String()
}
