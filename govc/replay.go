package main

import (
	"encoding/json"
	"fmt"
	"go/types"
	"os"
	"os/exec"
	"path/filepath"
	"regexp"
	"strings"
)

// ---------------------------------------------------------------- replay of solver models on the real code
//
// Supported: non-generic functions/methods whose parameters (and receiver) are integers, booleans and
// (nested) slices of integers, and whose results are of those kinds or error. The model's inputs are turned
// into Go literals, the real function is run through `go test -overlay` (nothing is written into /repo), and
// the observed outputs are substituted into the postcondition, which the solver then evaluates.

type ioVar struct {
	Name string // Go name
	In   *Term  // entry constant
	Out  *Term  // final-value constant (slices, results)
	Typ  types.Type
	Role string // param | recv | result
}

type replayInfo struct {
	Supported bool
	Why       string
	Vars      []ioVar
	Post      *Term // conjunction of the ensures clauses over In/Out constants
	PostFacts []*Term
	Pre       []*Term
	PkgDir    string
	PkgName   string
	CallExpr  string // Go expression template
	FuncName  string
}

func simpleKind(t types.Type) string {
	switch x := types.Unalias(t).Underlying().(type) {
	case *types.Basic:
		if x.Info()&types.IsInteger != 0 {
			return "int"
		}
		if x.Info()&types.IsBoolean != 0 {
			return "bool"
		}
	case *types.Slice:
		k := simpleKind(x.Elem())
		if k == "int" || k == "slice" {
			return "slice"
		}
	}
	if t.String() == "error" {
		return "error"
	}
	return ""
}

func (fc *FuncCtx) buildReplayInfo() *replayInfo {
	ri := &replayInfo{FuncName: fc.funcName()}
	if fc.sig.TypeParams().Len() > 0 || fc.sig.RecvTypeParams().Len() > 0 {
		ri.Why = "generic function"
		return ri
	}
	var names []string
	add := func(v *types.Var, role string) bool {
		if v == nil || v.Name() == "" || v.Name() == "_" {
			ri.Why = "unnamed parameter"
			return false
		}
		k := simpleKind(v.Type())
		if k == "" || k == "error" {
			ri.Why = "parameter " + v.Name() + " of unsupported type " + v.Type().String()
			return false
		}
		iv := ioVar{Name: v.Name(), In: Const("in$"+v.Name(), fc.sortOf(v.Type())), Typ: v.Type(), Role: role}
		if k == "slice" {
			iv.Out = Const("out$"+v.Name(), fc.sortOf(v.Type()))
		}
		ri.Vars = append(ri.Vars, iv)
		names = append(names, v.Name())
		return true
	}
	if r := fc.sig.Recv(); r != nil {
		if !add(r, "recv") {
			return ri
		}
	}
	var argNames []string
	for i := 0; i < fc.sig.Params().Len(); i++ {
		if !add(fc.sig.Params().At(i), "param") {
			return ri
		}
		argNames = append(argNames, fc.sig.Params().At(i).Name())
	}
	if fc.sig.Variadic() {
		ri.Why = "variadic"
		return ri
	}
	for i, rv := range fc.resultVars {
		k := simpleKind(rv.Type())
		if k == "" {
			ri.Why = "result of unsupported type " + rv.Type().String()
			return ri
		}
		ri.Vars = append(ri.Vars, ioVar{Name: fc.resultName[i], Out: Const("out$"+fc.resultName[i], fc.sortOf(rv.Type())), Typ: rv.Type(), Role: "result"})
	}
	if fc.sig.Recv() != nil {
		ri.CallExpr = fc.sig.Recv().Name() + "." + fc.fn.Name() + "(" + strings.Join(argNames, ", ") + ")"
	} else {
		ri.CallExpr = fc.fn.Name() + "(" + strings.Join(argNames, ", ") + ")"
	}
	ri.PkgName = fc.pkg.Types.Name()
	if len(fc.pkg.GoFiles) > 0 {
		ri.PkgDir = filepath.Dir(fc.pkg.GoFiles[0])
	}
	ri.Supported = true
	return ri
}

// buildPostFormula evaluates the ensures clauses over in$/out$ constants only.
func (fc *FuncCtx) buildPostFormula(ri *replayInfo) {
	if !ri.Supported || fc.contract == nil {
		return
	}
	defer func() {
		if r := recover(); r != nil {
			ri.Supported = false
			ri.Why = fmt.Sprintf("postcondition not expressible over inputs/outputs: %v", r)
		}
	}()
	st := fc.entry.clone()
	base := st.pc
	byName := map[string]*ioVar{}
	for i := range ri.Vars {
		byName[ri.Vars[i].Name] = &ri.Vars[i]
	}
	for obj := range st.env {
		if iv, ok := byName[obj.Name()]; ok && iv.Out != nil && iv.Role != "result" {
			st.env[obj] = Val{T: iv.Out, Typ: iv.Typ}
		}
	}
	for i, rv := range fc.resultVars {
		iv := byName[fc.resultName[i]]
		v := Val{T: iv.Out, Typ: rv.Type()}
		st.env[rv] = v
		st.names[fc.resultName[i]] = v
	}
	sc := &specCtx{names: st.names, old: fc.entry, pos: fc.specPos, pkg: fc.pkg.Types}
	fc.noOblig++
	var cls []*Term
	for _, en := range fc.contract.Ensures {
		if en.Unproved || en.Free {
			continue
		}
		cls = append(cls, fc.evalSpecBool(st, en.Expr, sc))
	}
	fc.noOblig--
	ri.Post = And(cls...)
	for n := st.pc; n != base; n = n.parent {
		ri.PostFacts = append(ri.PostFacts, n.fact)
	}
	ri.Pre = fc.entry.pc.list()
}

// ---------------------------------------------------------------- model values

var valLine = regexp.MustCompile(`^\(\((.*)\)\)$`)

func parseSMTInt(s string) (string, bool) {
	s = strings.TrimSpace(s)
	if strings.HasPrefix(s, "(- ") {
		return "-" + strings.TrimSuffix(strings.TrimPrefix(s, "(- "), ")"), true
	}
	for _, c := range s {
		if c < '0' || c > '9' {
			return "", false
		}
	}
	return s, s != ""
}

// getValues asks the solver for the values of terms in a satisfiable query.
func getValues(query string, terms []*Term, solver string) ([]string, bool) {
	if len(terms) == 0 {
		return nil, true
	}
	var sb strings.Builder
	sb.WriteString(strings.Replace(query, "(get-model)\n", "", 1))
	for _, t := range terms {
		sb.WriteString("(get-value (" + t.String() + "))\n")
	}
	r := solve(sb.String(), 20, solver)
	if r.Status != "sat" {
		return nil, false
	}
	var vals []string
	for _, line := range strings.Split(strings.TrimSpace(r.Model), "\n") {
		line = strings.TrimSpace(line)
		if m := valLine.FindStringSubmatch(line); m != nil {
			// "(term value)": value is the last balanced token
			inner := m[1]
			v := lastToken(inner)
			vals = append(vals, v)
		}
	}
	if len(vals) != len(terms) {
		return nil, false
	}
	return vals, true
}

func lastToken(s string) string {
	s = strings.TrimSpace(s)
	if strings.HasSuffix(s, ")") {
		depth := 0
		for i := len(s) - 1; i >= 0; i-- {
			if s[i] == ')' {
				depth++
			}
			if s[i] == '(' {
				depth--
				if depth == 0 {
					return s[i:]
				}
			}
		}
	}
	if i := strings.LastIndex(s, " "); i >= 0 {
		return s[i+1:]
	}
	return s
}

type concreteVal struct {
	Int   string
	Bool  bool
	Elems []concreteVal
	Kind  string
}

const maxReplayLen = 96

// extractInput obtains a concrete value for term t of Go type typ from the (satisfiable) query.
func extractInput(query string, t *Term, typ types.Type, solver string, pins *[]*Term) (concreteVal, bool) {
	withPins := func() string {
		q := query
		var sb strings.Builder
		for _, p := range *pins {
			sb.WriteString("(assert " + p.String() + ")\n")
		}
		return strings.Replace(q, "(check-sat)", sb.String()+"(check-sat)", 1)
	}
	switch simpleKind(typ) {
	case "int":
		vs, ok := getValues(withPins(), []*Term{t}, solver)
		if !ok {
			return concreteVal{}, false
		}
		n, ok := parseSMTInt(vs[0])
		if !ok {
			return concreteVal{}, false
		}
		*pins = append(*pins, Eq(t, IntLitS(n)))
		return concreteVal{Kind: "int", Int: n}, true
	case "bool":
		vs, ok := getValues(withPins(), []*Term{t}, solver)
		if !ok {
			return concreteVal{}, false
		}
		b := vs[0] == "true"
		*pins = append(*pins, Eq(t, BoolLit(b)))
		return concreteVal{Kind: "bool", Bool: b}, true
	case "slice":
		vs, ok := getValues(withPins(), []*Term{SliceLen(t)}, solver)
		if !ok {
			return concreteVal{}, false
		}
		ns, ok := parseSMTInt(vs[0])
		if !ok {
			return concreteVal{}, false
		}
		var n int
		fmt.Sscanf(ns, "%d", &n)
		if n < 0 || n > maxReplayLen {
			// try to find a smaller model
			*pins = append(*pins, Le(SliceLen(t), IntLit(maxReplayLen)))
			vs, ok = getValues(withPins(), []*Term{SliceLen(t)}, solver)
			if !ok {
				return concreteVal{}, false
			}
			ns, _ = parseSMTInt(vs[0])
			fmt.Sscanf(ns, "%d", &n)
		}
		*pins = append(*pins, Eq(SliceLen(t), IntLit(int64(n))))
		cv := concreteVal{Kind: "slice"}
		et := types.Unalias(typ).Underlying().(*types.Slice).Elem()
		for i := 0; i < n; i++ {
			ev, ok := extractInput(query, SliceAt(t, IntLit(int64(i))), et, solver, pins)
			if !ok {
				return concreteVal{}, false
			}
			cv.Elems = append(cv.Elems, ev)
		}
		return cv, true
	}
	return concreteVal{}, false
}

func typeExpr(t types.Type, pkg *types.Package) string {
	return types.TypeString(t, func(p *types.Package) string {
		if p == pkg {
			return ""
		}
		return p.Name()
	})
}

func goLiteral(cv concreteVal, t types.Type, pkg *types.Package) string {
	switch cv.Kind {
	case "int":
		return typeExpr(t, pkg) + "(" + cv.Int + ")"
	case "bool":
		return fmt.Sprint(cv.Bool)
	case "slice":
		et := types.Unalias(t).Underlying().(*types.Slice).Elem()
		var es []string
		for _, e := range cv.Elems {
			es = append(es, goLiteral(e, et, pkg))
		}
		return typeExpr(t, pkg) + "{" + strings.Join(es, ", ") + "}"
	}
	return "nil"
}

func smtOfConcrete(cv concreteVal, s *Sort) *Term {
	switch cv.Kind {
	case "int":
		return IntLitS(cv.Int)
	case "bool":
		return BoolLit(cv.Bool)
	}
	return nil
}

// pinConcrete produces equalities t == cv
func pinConcrete(t *Term, cv concreteVal, out *[]*Term) {
	switch cv.Kind {
	case "int":
		*out = append(*out, Eq(t, IntLitS(cv.Int)))
	case "bool":
		*out = append(*out, Eq(t, BoolLit(cv.Bool)))
	case "slice":
		*out = append(*out, Eq(SliceLen(t), IntLit(int64(len(cv.Elems)))))
		for i, e := range cv.Elems {
			pinConcrete(SliceAt(t, IntLit(int64(i))), e, out)
		}
	}
}

func jsonToConcrete(v any) concreteVal {
	switch x := v.(type) {
	case string:
		if x == "true" || x == "false" {
			return concreteVal{Kind: "bool", Bool: x == "true"}
		}
		return concreteVal{Kind: "int", Int: x}
	case bool:
		return concreteVal{Kind: "bool", Bool: x}
	case []any:
		cv := concreteVal{Kind: "slice"}
		for _, e := range x {
			cv.Elems = append(cv.Elems, jsonToConcrete(e))
		}
		return cv
	case nil:
		return concreteVal{Kind: "slice"}
	}
	return concreteVal{}
}

var replayInfos = map[string]*replayInfo{}

func tryConcreteReplay(eng *Engine, o *Obligation, model string) (bool, string) {
	ri := replayInfos[o.Func]
	if ri == nil {
		return false, "no replay harness for this function (lemma or function outside the replayable class)"
	}
	if !ri.Supported {
		return false, "replay not supported: " + ri.Why
	}
	query := eng.queryFor(o, true)
	var pins []*Term
	inputs := map[string]concreteVal{}
	var pkgT *types.Package
	for _, p := range eng.pkgs {
		if p.Types.Name() == ri.PkgName && filepath.Dir(p.GoFiles[0]) == ri.PkgDir {
			pkgT = p.Types
		}
	}
	for _, iv := range ri.Vars {
		if iv.In == nil {
			continue
		}
		cv, ok := extractInput(query, iv.In, iv.Typ, o.Result.Solver, &pins)
		if !ok {
			return false, "could not extract a bounded concrete value for input " + iv.Name + " from the solver model"
		}
		inputs[iv.Name] = cv
	}
	// generate the test
	var sb strings.Builder
	sb.WriteString("package " + ri.PkgName + "\n\nimport (\n\t\"encoding/json\"\n\t\"fmt\"\n\t\"os\"\n\t\"testing\"\n)\n\n")
	sb.WriteString("func govcEnc(v any) any {\n\tswitch x := v.(type) {\n")
	sb.WriteString("\tcase nil:\n\t\treturn nil\n\tcase error:\n\t\treturn \"non-nil\"\n\tcase bool:\n\t\treturn x\n\t}\n\treturn govcEncR(v)\n}\n")
	sb.WriteString(`func govcEncR(v any) any {
	s := fmt.Sprint(v)
	_ = s
	switch x := v.(type) {
	case []byte:
		out := make([]any, len(x))
		for i, e := range x { out[i] = fmt.Sprint(e) }
		return out
	case [][]byte:
		out := make([]any, len(x))
		for i, e := range x { out[i] = govcEncR([]byte(e)) }
		return out
	}
	return fmt.Sprint(v)
}
`)
	sb.WriteString("func TestGovcReplay(t *testing.T) {\n\tres := map[string]any{}\n")
	sb.WriteString("\tdefer func() {\n\t\tif r := recover(); r != nil { res[\"panic\"] = fmt.Sprint(r) }\n\t\tb, _ := json.Marshal(res)\n\t\tos.Stdout.WriteString(\"\\nGOVC-REPLAY \" + string(b) + \"\\n\")\n\t}()\n")
	var desc []string
	for _, iv := range ri.Vars {
		if iv.In == nil {
			continue
		}
		lit := goLiteral(inputs[iv.Name], iv.Typ, pkgT)
		sb.WriteString("\t" + iv.Name + " := " + lit + "\n\t_ = " + iv.Name + "\n")
		desc = append(desc, iv.Name+" = "+lit)
	}
	var resNames []string
	for _, iv := range ri.Vars {
		if iv.Role == "result" {
			resNames = append(resNames, "r_"+iv.Name)
		}
	}
	if len(resNames) > 0 {
		sb.WriteString("\t" + strings.Join(resNames, ", ") + " := " + ri.CallExpr + "\n")
	} else {
		sb.WriteString("\t" + ri.CallExpr + "\n")
	}
	for _, iv := range ri.Vars {
		if iv.Role == "result" {
			if simpleKind(iv.Typ) == "error" {
				sb.WriteString("\tif r_" + iv.Name + " == nil { res[\"" + iv.Name + "\"] = nil } else { res[\"" + iv.Name + "\"] = \"non-nil\" }\n")
			} else {
				sb.WriteString("\tres[\"" + iv.Name + "\"] = govcEncConv(r_" + iv.Name + ")\n")
			}
		} else if iv.Out != nil {
			sb.WriteString("\tres[\"after_" + iv.Name + "\"] = govcEncConv(" + iv.Name + ")\n")
		}
	}
	sb.WriteString("}\n")
	// generic converter through reflection-free fmt for named slice types
	sb.WriteString(`func govcEncConv(v any) any {
	b, err := json.Marshal(govcNormalize(v))
	if err != nil { return fmt.Sprint(v) }
	var out any
	_ = json.Unmarshal(b, &out)
	return out
}
func govcNormalize(v any) any {
	s := fmt.Sprintf("%d", v)
	if len(s) > 0 && s[0] == '[' {
		return govcParseList(&s)
	}
	if b, ok := v.(bool); ok { return b }
	return s
}
func govcParseList(s *string) any {
	// parses fmt %d output of nested integer slices: [1 2 [3 4]]
	out := []any{}
	*s = (*s)[1:]
	for len(*s) > 0 {
		switch (*s)[0] {
		case ' ':
			*s = (*s)[1:]
		case ']':
			*s = (*s)[1:]
			return out
		case '[':
			out = append(out, govcParseList(s))
		default:
			j := 0
			for j < len(*s) && (*s)[j] != ' ' && (*s)[j] != ']' { j++ }
			out = append(out, (*s)[:j])
			*s = (*s)[j:]
		}
	}
	return out
}
`)
	tmp, err := os.MkdirTemp("", "govc-replay-")
	if err != nil {
		return false, "cannot create temp dir"
	}
	defer os.RemoveAll(tmp)
	testFile := filepath.Join(tmp, "zz_govc_replay_test.go")
	os.WriteFile(testFile, []byte(sb.String()), 0o644)
	ov := map[string]any{"Replace": map[string]string{filepath.Join(ri.PkgDir, "zz_govc_replay_test.go"): testFile}}
	ovb, _ := json.Marshal(ov)
	ovFile := filepath.Join(tmp, "ov.json")
	os.WriteFile(ovFile, ovb, 0o644)
	rel, _ := filepath.Rel(repoDir, ri.PkgDir)
	cmd := exec.Command("go", "test", "-tags", "purego", "-overlay", ovFile, "-vet=off", "-count=1", "-timeout", "60s", "-v", "-run", "^TestGovcReplay$", "./"+rel)
	cmd.Dir = repoDir
	env := []string{}
	for _, e := range os.Environ() {
		if strings.HasPrefix(e, "GOFLAGS=") || strings.HasPrefix(e, "GOTOOLCHAIN=") || strings.HasPrefix(e, "PATH=") {
			continue
		}
		env = append(env, e)
	}
	// the repository needs its own toolchain selection (go.mod says go 1.26); keep the default PATH order
	env = append(env, "PATH="+stripVerifGo(os.Getenv("PATH")), "GOFLAGS=", "GOPROXY=off", "GOSUMDB=off")
	cmd.Env = env
	outB, _ := cmd.CombinedOutput()
	outS := string(outB)
	txt := "inputs from the solver model: " + strings.Join(desc, "; ") + "\ncommand: go test -tags purego -overlay <generated test> -run ^TestGovcReplay$ ./" + rel + "\n"
	i := strings.Index(outS, "GOVC-REPLAY ")
	if i < 0 {
		return false, txt + "replay did not produce a result:\n" + firstLines(outS, 12)
	}
	line := outS[i+len("GOVC-REPLAY "):]
	if j := strings.Index(line, "\n"); j >= 0 {
		line = line[:j]
	}
	txt += "observed: " + line + "\n"
	var res map[string]any
	if err := json.Unmarshal([]byte(line), &res); err != nil {
		return false, txt + "cannot parse replay output"
	}
	if p, ok := res["panic"]; ok {
		switch o.Kind {
		case "post":
			// a panic where a normal return was specified: the function did not meet its contract
			return true, txt + fmt.Sprintf("the real function panicked (%v) on this input, which satisfies the precondition", p)
		default:
			return true, txt + fmt.Sprintf("confirmed: the real function panics (%v) on this input, which satisfies the precondition", p)
		}
	}
	if o.Kind != "post" {
		return false, txt + "the real function did not panic on the model's input (spurious for the concrete types, or the model is not a real input)"
	}
	if ri.Post == nil {
		return false, txt + "no closed postcondition formula available"
	}
	// evaluate the postcondition on observed values
	var asserts []*Term
	for _, iv := range ri.Vars {
		if iv.In != nil {
			pinConcrete(iv.In, inputs[iv.Name], &asserts)
		}
		if iv.Role == "result" {
			v, ok := res[iv.Name]
			if simpleKind(iv.Typ) == "error" {
				if !ok || v == nil {
					asserts = append(asserts, Eq(iv.Out, Const("nil", SV)))
				} else {
					asserts = append(asserts, Not(Eq(iv.Out, Const("nil", SV))))
				}
				continue
			}
			pinConcrete(iv.Out, jsonToConcrete(v), &asserts)
		} else if iv.Out != nil {
			pinConcrete(iv.Out, jsonToConcrete(res["after_"+iv.Name]), &asserts)
		}
	}
	all := append(append([]*Term{}, ri.PostFacts...), asserts...)
	q := renderQuery(nil, all, ri.Post, nil, false)
	r := solve(q, 20, "")
	switch r.Status {
	case "sat":
		return true, txt + "confirmed: the observed outputs violate the postcondition (checked by " + r.Solver + " on the closed formula)"
	case "unsat":
		return false, txt + "the real function satisfies the postcondition on the model's input (counterexample is spurious for the real code)"
	}
	return false, txt + "could not evaluate the postcondition on the observed values (" + r.Status + ")"
}

func stripVerifGo(path string) string {
	var out []string
	for _, p := range strings.Split(path, ":") {
		if strings.Contains(p, "/opt/veriftools/go1.26.8") {
			continue
		}
		out = append(out, p)
	}
	return strings.Join(out, ":")
}

// ---------------------------------------------------------------- must-fail selftest corpus

func runSelftest(prop string) map[string]any {
	res := map[string]any{}
	data, err := os.ReadFile(filepath.Join(verifDir, "selftest", prop+".txt"))
	if err != nil {
		res["mutants"] = 0
		return res
	}
	total, detected := 0, 0
	var silent []string
	for _, line := range strings.Split(string(data), "\n----\n") {
		line = strings.Trim(line, "\n")
		if strings.TrimSpace(line) == "" || strings.HasPrefix(line, "#") {
			continue
		}
		parts := strings.SplitN(line, "@@", 4)
		if len(parts) < 3 {
			continue
		}
		p := filepath.Join(repoDir, parts[0])
		src, err := os.ReadFile(p)
		if err != nil || !strings.Contains(string(src), parts[1]) {
			fmt.Fprintf(os.Stderr, "selftest %s: canary for %s skipped (its text is no longer in the source)\n", prop, parts[0])
			continue // source changed: canary not applicable
		}
		total++
		overlay := map[string][]byte{p: []byte(strings.Replace(string(src), parts[1], parts[2], 1))}
		pat := ""
		if len(parts) == 4 {
			pat = parts[3]
		}
		out, _, err := runVerify(prop, pat, 10, overlay)
		hit := err != nil
		if out != nil {
			for _, o := range out.obls {
				if !o.Cover && o.Status != "discharged" {
					hit = true
				}
			}
			for _, f := range out.funcs {
				if f.EngineErr != "" {
					hit = true
				}
			}
		}
		if hit {
			detected++
		} else {
			silent = append(silent, parts[0]+": "+parts[1]+" -> "+parts[2])
		}
	}
	res["mutants"] = total
	res["detected"] = detected
	res["silent"] = silent
	return res
}
