package main

import (
	"fmt"
	"go/types"
	"strings"
)

// applyFnValue models a call through a function value as an uninterpreted function of (function value, args).
func (fc *FuncCtx) applyFnValue(st *State, fv Val, args []Val, resT types.Type) Val {
	ts := []*Term{fv.T}
	for _, a := range args {
		if a.T != nil {
			ts = append(ts, a.T)
		} else if a.Loc != nil {
			ts = append(ts, fc.readLoc(st, a.Loc))
		}
	}
	var sg []string
	for _, a := range ts {
		sg = append(sg, sortTag(a.Sort))
	}
	mk1 := func(t types.Type, i, n int) Val {
		s := fc.sortOf(t)
		nm := "apply"
		if n > 1 {
			nm = fmt.Sprintf("apply#%d", i)
		}
		r := App(nm+"$"+strings.Join(sg, ".")+">"+sortTag(s), s, ts...)
		st.assume(fc.typeFacts(r, t))
		fc.assumeTypeInv(st, r, t)
		return Val{T: r, Typ: t}
	}
	if resT == nil {
		return Val{}
	}
	if tup, ok := resT.(*types.Tuple); ok {
		if tup.Len() == 0 {
			return Val{}
		}
		var vs []Val
		for i := 0; i < tup.Len(); i++ {
			vs = append(vs, mk1(tup.At(i).Type(), i, tup.Len()))
		}
		return Val{Tuple: vs}
	}
	return mk1(resT, 0, 1)
}
