package main

import (
	"fmt"
	"go/ast"
	"go/token"
	"go/types"
	"os"
	"strings"
)

// ---------------------------------------------------------------- merging

func (fc *FuncCtx) merge(states []*State) *State {
	var live []*State
	for _, s := range states {
		if s != nil {
			live = append(live, s)
		}
	}
	if len(live) == 0 {
		return nil
	}
	if len(live) == 1 {
		return live[0]
	}
	base := live[0].pc
	for _, s := range live[1:] {
		base = lca(base, s.pc)
	}
	out := live[0].clone()
	out.pc = base
	guards := make([]*Term, len(live))
	for i, s := range live {
		g := fc.freshConst("br", SBool)
		guards[i] = g
		var extra []*Term
		for n := s.pc; n != base; n = n.parent {
			extra = append(extra, n.fact)
		}
		for k := len(extra) - 1; k >= 0; k-- {
			out.assume(Implies(g, extra[k]))
		}
	}
	out.assume(Or(guards...))
	// env
	keys := map[types.Object]bool{}
	for _, s := range live {
		for k := range s.env {
			keys[k] = true
		}
	}
	for k := range keys {
		var vals []Val
		all := true
		for _, s := range live {
			v, ok := s.env[k]
			if !ok {
				all = false
				break
			}
			vals = append(vals, v)
		}
		if !all {
			delete(out.env, k)
			continue
		}
		same := true
		for _, v := range vals[1:] {
			if v.T != vals[0].T || v.Loc != vals[0].Loc {
				same = false
			}
		}
		if same {
			out.env[k] = vals[0]
			continue
		}
		if vals[0].T == nil {
			// differing non-term values: drop (will be re-created as unknown on read)
			delete(out.env, k)
			continue
		}
		m := fc.freshConst(k.Name(), vals[0].T.Sort)
		ok := true
		for i, v := range vals {
			if v.T == nil || !v.T.Sort.Eq(m.Sort) {
				ok = false
				break
			}
			out.assume(Implies(guards[i], Eq(m, v.T)))
		}
		if !ok {
			delete(out.env, k)
			continue
		}
		out.env[k] = Val{T: m, Typ: vals[0].Typ}
	}
	// heap
	hkeys := map[string]bool{}
	for _, s := range live {
		for k := range s.heap {
			hkeys[k] = true
		}
	}
	for k := range hkeys {
		var arrs []*Term
		for _, s := range live {
			a, ok := s.heap[k]
			if !ok {
				// untouched in this branch: initial array
				for _, s2 := range live {
					if a2, ok2 := s2.heap[k]; ok2 {
						a = Const(k, a2.Sort)
						break
					}
				}
			}
			arrs = append(arrs, a)
		}
		same := true
		for _, a := range arrs[1:] {
			if a != arrs[0] && a.String() != arrs[0].String() {
				same = false
			}
		}
		if same {
			out.heap[k] = arrs[0]
			continue
		}
		m := fc.freshConst(k, arrs[0].Sort)
		for i, a := range arrs {
			out.assume(Implies(guards[i], Eq(m, a)))
		}
		out.heap[k] = m
	}
	// names
	for k, v := range live[0].names {
		out.names[k] = v
	}
	// ghost variables: merged like program variables
	if fc.contract != nil {
		for _, gv := range fc.contract.GhostVars {
			var vals []Val
			for _, s := range live {
				if v, ok := s.names[gv.Name]; ok && v.T != nil {
					vals = append(vals, v)
				}
			}
			if len(vals) != len(live) {
				continue
			}
			same := true
			for _, v := range vals[1:] {
				if v.T != vals[0].T {
					same = false
				}
			}
			if same {
				continue
			}
			m := fc.freshConst("gv_"+gv.Name, vals[0].T.Sort)
			for i, v := range vals {
				out.assume(Implies(guards[i], Eq(m, v.T)))
			}
			out.names[gv.Name] = Val{T: m, Typ: vals[0].Typ}
		}
	}
	return out
}

// ---------------------------------------------------------------- statements

func (fc *FuncCtx) execBlock(st *State, list []ast.Stmt) flow {
	var f flow
	cur := st
	for _, s := range list {
		if cur == nil {
			break
		}
		fc.runHints(cur, s, "before")
		r := fc.execStmt(cur, s)
		f.brk = append(f.brk, r.brk...)
		f.cont = append(f.cont, r.cont...)
		f.lbrk = append(f.lbrk, r.lbrk...)
		f.lcont = append(f.lcont, r.lcont...)
		cur = r.next
		if cur != nil {
			fc.runHints(cur, s, "after")
		}
	}
	f.next = cur
	return f
}

// stmtText returns the whitespace-normalised source text of a statement.
func (fc *FuncCtx) stmtText(s ast.Stmt) string {
	p0, p1 := fc.pkg.Fset.Position(s.Pos()), fc.pkg.Fset.Position(s.End())
	if !p0.IsValid() {
		return ""
	}
	src, ok := fc.eng.overlay[p0.Filename]
	if !ok {
		if fc.eng.srcCache == nil {
			fc.eng.srcCache = map[string][]byte{}
		}
		if src, ok = fc.eng.srcCache[p0.Filename]; !ok {
			src, _ = os.ReadFile(p0.Filename)
			fc.eng.srcCache[p0.Filename] = src
		}
	}
	if p0.Offset < 0 || p1.Offset > len(src) || p0.Offset > p1.Offset {
		return ""
	}
	return strings.Join(strings.Fields(string(src[p0.Offset:p1.Offset])), " ")
}

// runHints proves and then assumes the intermediate assertions anchored at statement s.
func (fc *FuncCtx) runHints(st *State, s ast.Stmt, when string) {
	if fc.contract == nil || len(fc.contract.Asserts) == 0 {
		return
	}
	var txt string
	for _, h := range fc.contract.Asserts {
		if h.When != when {
			continue
		}
		if txt == "" {
			txt = fc.stmtText(s)
		}
		if !strings.HasPrefix(txt, strings.Join(strings.Fields(h.Anchor), " ")) {
			continue
		}
		h.used = true
		if h.matchedAt == nil {
			h.matchedAt = map[int]bool{}
		}
		h.matchedAt[int(s.Pos())] = true
		if len(h.matchedAt) > 1 {
			panic(engineError{"anchor matches more than one statement (make it longer): " + h.Anchor})
		}
		sc := &specCtx{names: st.names, old: fc.entry, pos: s.End(), pkg: fc.pkg.Types}
		if when == "before" {
			sc.pos = s.Pos()
		}
		if h.Target != "" {
			fc.ghostAssign(st, h, sc)
			continue
		}
		if h.Clause.Free {
			fc.noOblig++
			g := fc.evalSpecBool(st, h.Clause.Expr, sc)
			fc.noOblig--
			fc.note("free (assumed) assertion: " + h.Clause.Text)
			st.assume(g)
			continue
		}
		g := fc.evalSpecBool(st, h.Clause.Expr, sc)
		if h.CaseVar != "" {
			// proof by cases on a bounded integer: the variable is in range, and the assertion holds for each value
			cv, ok := fc.lookupSpecName(st, h.CaseVar, sc)
			if !ok || cv.T == nil || cv.T.Sort.Kind != "Int" {
				panic(engineError{"assert cases: unknown integer variable " + h.CaseVar})
			}
			fc.emit(st, "assert", "case split covers `"+h.CaseVar+"`", And(Le(IntLit(h.CaseLo), cv.T), Le(cv.T, IntLit(h.CaseHi))), s.Pos(), fmt.Sprintf("%d <= %s <= %d", h.CaseLo, h.CaseVar, h.CaseHi))
			for c := h.CaseLo; c <= h.CaseHi; c++ {
				fc.emit(st, "assert", fmt.Sprintf("intermediate assertion %s `%s` (case %s = %d)", when, h.Anchor, h.CaseVar, c), Implies(Eq(cv.T, IntLit(c)), g), s.Pos(), h.Clause.Text)
			}
			st.assume(g)
			continue
		}
		fc.emit(st, "assert", "intermediate assertion "+when+" `"+h.Anchor+"`", g, s.Pos(), h.Clause.Text)
		st.assume(g)
	}
}

// ghostAssign executes a ghost assignment "x = e" / "x[i] = e" on a ghost variable of the function.
func (fc *FuncCtx) ghostAssign(st *State, h *AssertHint, sc *specCtx) {
	cur, ok := st.names[h.Target]
	if !ok || cur.T == nil {
		panic(engineError{"ghostset: unknown ghost variable " + h.Target})
	}
	fc.noOblig++
	defer func() { fc.noOblig-- }()
	v := fc.evalSpec(st, h.Value, sc)
	if v.T == nil && v.Loc != nil {
		v = Val{T: fc.readLoc(st, v.Loc), Typ: v.Loc.Typ}
	}
	if v.T == nil {
		panic(engineError{"ghostset: value is not a term: " + h.Clause.Text})
	}
	if h.Index == nil {
		st.names[h.Target] = Val{T: fc.nameTerm(st, "gv_"+h.Target, fc.coerceTerm(v.T, cur.T.Sort)), Typ: cur.Typ}
		return
	}
	idx := fc.evalSpec(st, h.Index, sc)
	switch cur.T.Sort.Kind {
	case "Map":
		k := fc.coerceTerm(idx.T, cur.T.Sort.Key)
		nm := MkMap(Store(MapArr(cur.T), k, fc.coerceTerm(v.T, cur.T.Sort.Elem)), Store(MapDom(cur.T), k, TTrue))
		st.names[h.Target] = Val{T: fc.nameTerm(st, "gv_"+h.Target, nm), Typ: cur.Typ}
	default:
		panic(engineError{"ghostset: indexed assignment needs a ghost variable of map type: " + h.Target})
	}
}

// havocGhost: ghost variables assigned by a ghostset anchored at a statement inside n get a fresh value (loop frame)
func (fc *FuncCtx) havocGhost(st *State, n ast.Node) {
	if fc.contract == nil || len(fc.contract.GhostVars) == 0 {
		return
	}
	hit := map[string]bool{}
	ast.Inspect(n, func(nd ast.Node) bool {
		s, ok := nd.(ast.Stmt)
		if !ok {
			return true
		}
		txt := ""
		for _, h := range fc.contract.Asserts {
			if h.Target == "" || hit[h.Target] {
				continue
			}
			if txt == "" {
				txt = fc.stmtText(s)
			}
			if strings.HasPrefix(txt, strings.Join(strings.Fields(h.Anchor), " ")) {
				hit[h.Target] = true
			}
		}
		return true
	})
	for name := range hit {
		if cur, ok := st.names[name]; ok && cur.T != nil {
			st.names[name] = Val{T: fc.freshConst("gv_"+name, cur.T.Sort), Typ: cur.Typ}
		}
	}
}

func (fc *FuncCtx) execStmt(st *State, s ast.Stmt) flow {
	switch x := s.(type) {
	case *ast.BlockStmt:
		return fc.execBlock(st, x.List)
	case *ast.ExprStmt:
		if call, ok := x.X.(*ast.CallExpr); ok {
			if id, ok := call.Fun.(*ast.Ident); ok && id.Name == "panic" {
				if _, isB := fc.info.ObjectOf(id).(*types.Builtin); isB {
					fc.reachPanic(st, x.Pos(), "explicit panic")
					return flow{}
				}
			}
		}
		fc.evalExpr(st, x.X)
		return flow{next: st}
	case *ast.AssignStmt:
		fc.execAssign(st, x)
		return flow{next: st}
	case *ast.IncDecStmt:
		l := fc.evalLoc(st, x.X)
		cur := fc.readLoc(st, l)
		var nv *Term
		if x.Tok == token.INC {
			nv = fc.wrapInt(Add(cur, IntLit(1)), l.Typ)
		} else {
			nv = fc.wrapInt(Sub(cur, IntLit(1)), l.Typ)
		}
		fc.writeLoc(st, l, fc.nameTerm(st, "inc", nv))
		return flow{next: st}
	case *ast.DeclStmt:
		gd, ok := x.Decl.(*ast.GenDecl)
		if !ok || gd.Tok != token.VAR {
			return flow{next: st}
		}
		for _, sp := range gd.Specs {
			vs := sp.(*ast.ValueSpec)
			if len(vs.Values) == 1 && len(vs.Names) > 1 {
				v := fc.evalExpr(st, vs.Values[0])
				for i, n := range vs.Names {
					fc.bindNew(st, n, v.Tuple[i])
				}
				continue
			}
			for i, n := range vs.Names {
				obj := fc.info.Defs[n]
				if obj == nil {
					continue
				}
				if i < len(vs.Values) {
					v := fc.evalExpr(st, vs.Values[i])
					fc.assignObj(st, obj, v)
				} else if isStruct(obj.Type()) && fc.bindOf(obj.Type()) == "" {
					// a struct variable is an object of its own (its address is non-nil and fresh)
					st.env[obj] = Val{T: fc.newRef(st, n.Name), Typ: obj.Type()}
				} else {
					st.env[obj] = Val{T: fc.zeroVal(obj.Type(), n.Name), Typ: obj.Type()}
				}
			}
		}
		return flow{next: st}
	case *ast.ReturnStmt:
		fc.execReturn(st, x)
		return flow{}
	case *ast.IfStmt:
		return fc.execIf(st, x)
	case *ast.ForStmt:
		return fc.execFor(st, x)
	case *ast.RangeStmt:
		return fc.execRange(st, x)
	case *ast.BranchStmt:
		switch x.Tok {
		case token.BREAK:
			if x.Label != nil {
				return flow{lbrk: []labState{{x.Label.Name, st}}}
			}
			return flow{brk: []*State{st}}
		case token.CONTINUE:
			if x.Label != nil {
				return flow{lcont: []labState{{x.Label.Name, st}}}
			}
			return flow{cont: []*State{st}}
		}
		fc.fail(x.Pos(), "unsupported branch %s", x.Tok)
	case *ast.SwitchStmt:
		return fc.execSwitch(st, x)
	case *ast.EmptyStmt:
		return flow{next: st}
	case *ast.LabeledStmt:
		fc.pendingLabel = x.Label.Name
		r := fc.execStmt(st, x.Stmt)
		fc.pendingLabel = ""
		// a labelled break out of a labelled non-loop statement lands after it
		mine, rest := takeLabelled(r.lbrk, x.Label.Name)
		if len(mine) > 0 {
			r.next = fc.merge(append([]*State{r.next}, mine...))
		}
		r.lbrk = rest
		return r
	case *ast.DeferStmt:
		fc.deferred = append(fc.deferred, x)
		fc.execDeferNote(st, x)
		return flow{next: st}
	case *ast.GoStmt:
		fc.abstract("go statement ignored", x.Pos())
		return flow{next: st}
	case *ast.TypeSwitchStmt, *ast.SelectStmt, *ast.SendStmt:
		fc.abstract(fmt.Sprintf("unsupported statement %T: assigned variables havoc'd", s), s.Pos())
		fc.havocAssigned(st, s)
		return flow{next: st}
	}
	fc.fail(s.Pos(), "unsupported statement %T", s)
	return flow{}
}

func (fc *FuncCtx) execDeferNote(st *State, d *ast.DeferStmt) {
	// supported: defer mu.Unlock() (monitor) -- handled by monitor logic; others flagged
	if sel, ok := d.Call.Fun.(*ast.SelectorExpr); ok && (sel.Sel.Name == "Unlock" || sel.Sel.Name == "RUnlock") {
		return
	}
	fc.abstract("defer not modelled", d.Pos())
}

func (fc *FuncCtx) reachPanic(st *State, pos token.Pos, what string) {
	if fc.contract != nil && (fc.contract.NoPanic || fc.contract.Opts["explicitpanic"] == "on") {
		fc.emit(st, "nopanic", what+" unreachable", TFalse, pos, "")
	}
}

func (fc *FuncCtx) bindNew(st *State, n *ast.Ident, v Val) {
	if n.Name == "_" {
		return
	}
	obj := fc.info.ObjectOf(n)
	if obj == nil {
		return
	}
	fc.assignObj(st, obj, v)
}

func (fc *FuncCtx) assignObj(st *State, obj types.Object, v Val) {
	if v.Loc != nil || v.Fn != nil || v.FnObj != nil {
		v.Typ = obj.Type()
		st.env[obj] = v
		return
	}
	t := fc.coerce(st, v, obj.Type())
	if isStruct(obj.Type()) && t.Sort.Kind == "V" && fc.bindOf(obj.Type()) == "" {
		t = fc.copyStruct(st, t, obj.Type())
	}
	st.env[obj] = Val{T: t, Typ: obj.Type()}
}

// copyStruct models assignment of a struct value: a fresh object whose declared fields (and the ghost fields
// declared "of" this type) are copies of the source's.
func (fc *FuncCtx) copyStruct(st *State, src *Term, typ types.Type) *Term {
	stt, ok := types.Unalias(typ).Underlying().(*types.Struct)
	if !ok {
		return src
	}
	ref := fc.newRef(st, "copy")
	for i := 0; i < stt.NumFields(); i++ {
		f := stt.Field(i)
		s := fc.sortOf(f.Origin().Type())
		key := fc.fieldKey(f)
		v := Select(fc.heapArr(st, key, s), src)
		fc.writeLoc(st, &Loc{Kind: "field", Base: ref, Key: key, Sort: s, Typ: f.Type()}, v)
	}
	tn := ""
	if n, ok := types.Unalias(typ).(*types.Named); ok {
		tn = n.Obj().Name()
		if n.Obj().Pkg() != nil {
			tn = n.Obj().Pkg().Name() + "." + tn
		}
	}
	for _, gf := range fc.eng.contracts.GhostFields {
		if gf.Of != "" && gf.Of == tn {
			s, _ := fc.sortOfTypeName(gf.Sort, nil)
			key := "GF$" + gf.Name
			v := Select(fc.heapArr(st, key, s), src)
			fc.writeLoc(st, &Loc{Kind: "field", Base: ref, Key: key, Sort: s}, v)
		}
	}
	return ref
}

func (fc *FuncCtx) execAssign(st *State, x *ast.AssignStmt) {
	if x.Tok != token.ASSIGN && x.Tok != token.DEFINE {
		// compound assignment
		l := fc.evalLoc(st, x.Lhs[0])
		cur := Val{T: fc.readLoc(st, l), Typ: l.Typ}
		r := fc.evalExpr(st, x.Rhs[0])
		op := strings.TrimSuffix(x.Tok.String(), "=")
		nv := fc.binop(st, op, cur, r, l.Typ, l.Typ, x.Pos())
		// re-evaluate location (parent may have been renamed) - same loc object is fine
		fc.writeLoc(st, l, fc.nameTerm(st, "asg", nv.T))
		return
	}
	var vals []Val
	if len(x.Rhs) == 1 && len(x.Lhs) > 1 {
		v := fc.evalExpr(st, x.Rhs[0])
		if len(v.Tuple) != len(x.Lhs) {
			fc.fail(x.Pos(), "tuple arity mismatch: %d vs %d", len(v.Tuple), len(x.Lhs))
		}
		vals = v.Tuple
	} else {
		for i, r := range x.Rhs {
			saved := fc.appendTarget
			fc.appendTarget = nil
			if len(x.Rhs) == len(x.Lhs) {
				if id, ok := ast.Unparen(x.Lhs[i]).(*ast.Ident); ok {
					fc.appendTarget = fc.info.ObjectOf(id)
				}
			}
			vals = append(vals, fc.evalExpr(st, r))
			fc.appendTarget = saved
		}
	}
	for i, lhs := range x.Lhs {
		if id, ok := lhs.(*ast.Ident); ok {
			if id.Name == "_" {
				continue
			}
			obj := fc.info.ObjectOf(id)
			if obj == nil {
				continue
			}
			if _, isVar := obj.(*types.Var); isVar && !(obj.Pkg() != nil && obj.Parent() == obj.Pkg().Scope()) {
				fc.noteSliceCopy(obj, x, i)
				fc.assignObj(st, obj, vals[i])
				continue
			}
		}
		// *p = v for a struct pointer p: field-wise copy into the object p points to
		if se, ok := ast.Unparen(lhs).(*ast.StarExpr); ok {
			if pt := fc.info.TypeOf(se.X); pt != nil && isStructPtr(pt) && vals[i].T != nil {
				dst := fc.evalExpr(st, se.X)
				stt := types.Unalias(pointee(pt)).Underlying().(*types.Struct)
				for k := 0; k < stt.NumFields(); k++ {
					f := stt.Field(k)
					s := fc.sortOf(f.Origin().Type())
					key := fc.fieldKey(f)
					v := Select(fc.heapArr(st, key, s), vals[i].T)
					fc.writeLoc(st, &Loc{Kind: "field", Base: dst.T, Key: key, Sort: s, Typ: f.Type()}, v)
				}
				continue
			}
		}
		l := fc.evalLoc(st, lhs)
		t := fc.coerce(st, vals[i], l.Typ)
		fc.writeLoc(st, l, t)
	}
}

func (fc *FuncCtx) execIf(st *State, x *ast.IfStmt) flow {
	if x.Init != nil {
		r := fc.execStmt(st, x.Init)
		st = r.next
		if st == nil {
			return flow{}
		}
	}
	c := fc.evalExpr(st, x.Cond)
	thenSt := st.clone()
	thenSt.assume(c.T)
	elseSt := st.clone()
	elseSt.assume(Not(c.T))
	tf := fc.execBlock(thenSt, x.Body.List)
	var ef flow
	if x.Else != nil {
		ef = fc.execStmt(elseSt, x.Else)
	} else {
		ef = flow{next: elseSt}
	}
	out := flow{}
	out.brk = append(append(out.brk, tf.brk...), ef.brk...)
	out.cont = append(append(out.cont, tf.cont...), ef.cont...)
	out.lbrk = append(append(out.lbrk, tf.lbrk...), ef.lbrk...)
	out.lcont = append(append(out.lcont, tf.lcont...), ef.lcont...)
	out.next = fc.merge([]*State{tf.next, ef.next})
	return out
}

func (fc *FuncCtx) execSwitch(st *State, x *ast.SwitchStmt) flow {
	if x.Init != nil {
		r := fc.execStmt(st, x.Init)
		st = r.next
		if st == nil {
			return flow{}
		}
	}
	var tag *Val
	if x.Tag != nil {
		v := fc.evalExpr(st, x.Tag)
		tag = &v
	}
	var outs []*State
	out := flow{}
	notPrev := TTrue
	var defaultClause *ast.CaseClause
	for _, c := range x.Body.List {
		cc := c.(*ast.CaseClause)
		if cc.List == nil {
			defaultClause = cc
			continue
		}
		var conds []*Term
		for _, e := range cc.List {
			v := fc.evalExpr(st, e)
			if tag != nil {
				conds = append(conds, fc.binop(st, "==", *tag, v, types.Typ[types.Bool], tag.Typ, e.Pos()).T)
			} else {
				conds = append(conds, v.T)
			}
		}
		cond := Or(conds...)
		bs := st.clone()
		bs.assume(notPrev)
		bs.assume(cond)
		r := fc.execBlock(bs, cc.Body)
		outs = append(outs, r.next)
		// break inside switch exits the switch
		outs = append(outs, r.brk...)
		out.cont = append(out.cont, r.cont...)
		out.lbrk = append(out.lbrk, r.lbrk...)
		out.lcont = append(out.lcont, r.lcont...)
		notPrev = And(notPrev, Not(cond))
	}
	ds := st.clone()
	ds.assume(notPrev)
	if defaultClause != nil {
		r := fc.execBlock(ds, defaultClause.Body)
		outs = append(outs, r.next)
		outs = append(outs, r.brk...)
		out.cont = append(out.cont, r.cont...)
		out.lbrk = append(out.lbrk, r.lbrk...)
		out.lcont = append(out.lcont, r.lcont...)
	} else {
		outs = append(outs, ds)
	}
	out.next = fc.merge(outs)
	return out
}

// ---------------------------------------------------------------- return / postconditions

func (fc *FuncCtx) execReturn(st *State, x *ast.ReturnStmt) {
	if n := len(fc.inlineStack); n > 0 {
		// return from a function literal executed in place: record the state and the values
		fr := fc.inlineStack[n-1]
		var vals []Val
		if len(x.Results) == 1 && fr.sig.Results().Len() > 1 {
			vals = fc.evalExpr(st, x.Results[0]).Tuple
		} else {
			for _, r := range x.Results {
				vals = append(vals, fc.evalExpr(st, r))
			}
		}
		fr.rets = append(fr.rets, inlineRet{st, vals})
		return
	}
	res := fc.sig.Results()
	var vals []Val
	if len(x.Results) == 0 {
		for _, rv := range fc.resultVars {
			vals = append(vals, fc.readVar(st, rv, x.Pos()))
		}
	} else if len(x.Results) == 1 && res.Len() > 1 {
		v := fc.evalExpr(st, x.Results[0])
		vals = v.Tuple
	} else {
		for _, r := range x.Results {
			vals = append(vals, fc.evalExpr(st, r))
		}
	}
	fc.finishReturn(st, vals, x.Pos())
}

func (fc *FuncCtx) finishReturn(st *State, vals []Val, pos token.Pos) {
	fc.retCount++
	for i, rv := range fc.resultVars {
		if i < len(vals) {
			v := vals[i]
			if v.Loc == nil {
				v = Val{T: fc.coerce(st, v, rv.Type()), Typ: rv.Type()}
			}
			st.env[rv] = v
			st.names[fc.resultName[i]] = v
			if i == 0 {
				// the first result is always also reachable as "result" (e.g. a single error result)
				if _, clash := fc.localsByName["result"]; !clash {
					st.names["result"] = v
				}
			}
		}
	}
	// monitor: deferred unlock re-establishes invariant
	fc.runDeferred(st, pos)
	fc.emitCover(st, "return reachable", pos)
	if fc.contract == nil {
		return
	}
	sc := &specCtx{names: st.names, old: fc.entry, pos: fc.specPos, pkg: fc.pkg.Types}
	for _, en := range fc.contract.Ensures {
		if en.Unproved || en.Free {
			continue
		}
		g := fc.evalSpecBool(st, en.Expr, sc)
		fc.emit(st, "post", "postcondition at return", g, pos, en.Text)
	}
}

func (fc *FuncCtx) runDeferred(st *State, pos token.Pos) {
	for i := len(fc.deferred) - 1; i >= 0; i-- {
		d := fc.deferred[i]
		if sel, ok := d.Call.Fun.(*ast.SelectorExpr); ok && (sel.Sel.Name == "Unlock" || sel.Sel.Name == "RUnlock") {
			fc.evalCall(st, d.Call)
		}
	}
}

// ---------------------------------------------------------------- loops

type assignedSet struct {
	objs   map[types.Object]bool
	fields map[string]*Sort // heap keys
	all    bool
}

// scanAssigned finds variables / heap fields possibly modified by a statement (syntactic).
func (fc *FuncCtx) scanAssigned(n ast.Node) *assignedSet {
	as := &assignedSet{objs: map[types.Object]bool{}, fields: map[string]*Sort{}}
	var lhs func(e ast.Expr)
	lhs = func(e ast.Expr) {
		switch x := e.(type) {
		case *ast.Ident:
			if o := fc.info.ObjectOf(x); o != nil {
				as.objs[o] = true
			}
		case *ast.ParenExpr:
			lhs(x.X)
		case *ast.IndexExpr:
			lhs(x.X)
		case *ast.SelectorExpr:
			if sel := fc.info.Selections[x]; sel != nil && sel.Kind() == types.FieldVal {
				f := sel.Obj().(*types.Var)
				as.fields[fc.fieldKey(f)] = fc.sortOf(f.Origin().Type())
			}
		case *ast.StarExpr:
			t := fc.info.TypeOf(x.X)
			if el := pointee(t); el != nil {
				s := fc.sortOf(el)
				as.fields[fc.memKey(s)] = s
			}
			if id, ok := x.X.(*ast.Ident); ok {
				// pointer may be a Loc to a local: conservatively mark nothing else
				_ = id
			}
		case *ast.UnaryExpr:
			if x.Op == token.AND {
				lhs(x.X)
			}
		case *ast.CallExpr:
			// conversion like FP(&x)
			if len(x.Args) == 1 {
				lhs(x.Args[0])
			}
		}
	}
	ast.Inspect(n, func(nd ast.Node) bool {
		switch x := nd.(type) {
		case *ast.AssignStmt:
			for _, l := range x.Lhs {
				lhs(l)
			}
		case *ast.IncDecStmt:
			lhs(x.X)
		case *ast.RangeStmt:
			if x.Key != nil {
				lhs(x.Key)
			}
			if x.Value != nil {
				lhs(x.Value)
			}
		case *ast.DeclStmt:
			if gd, ok := x.Decl.(*ast.GenDecl); ok {
				for _, sp := range gd.Specs {
					if vs, ok := sp.(*ast.ValueSpec); ok {
						for _, nm := range vs.Names {
							lhs(nm)
						}
					}
				}
			}
		case *ast.CallExpr:
			// pointer-style methods write through receiver / pointer args
			if sel, ok := x.Fun.(*ast.SelectorExpr); ok {
				if s := fc.info.Selections[sel]; s != nil {
					rt := fc.info.TypeOf(sel.X)
					if pointee(rt) != nil && !isStructPtr(rt) || strings.HasSuffix(fc.bindOf(rt), "ptr") {
						lhs(sel.X)
						if pe := pointee(rt); pe != nil {
							sx := fc.sortOf(pe)
							as.fields[fc.memKey(sx)] = sx
						}
					}
				}
			}
			// samplers advance the state of the reader they are given
			if fn := fc.staticCallee(x); fn != nil && hasReaderParam(fn) && fc.eng.contractFor(fn) == nil {
				as.fields["GF$shk"] = SV
			}
			// callee contract modifies
			if fn := fc.staticCallee(x); fn != nil {
				if c := fc.eng.contractFor(fn); c != nil {
					for _, m := range c.Modifies {
						fc.modifiesKeys(fn, m, as)
					}
				}
			}
			for _, a := range x.Args {
				if u, ok := a.(*ast.UnaryExpr); ok && u.Op == token.AND {
					lhs(u.X)
				} else if t := fc.info.TypeOf(a); t != nil && pointee(t) != nil && !isStructPtr(t) {
					if pe := pointee(t); pe != nil {
						sx := fc.sortOf(pe)
						as.fields[fc.memKey(sx)] = sx
					}
				}
			}
		}
		return true
	})
	return as
}

// modifiesKeys resolves a modifies item of a callee contract to heap keys (best effort: by trailing field name).
func (fc *FuncCtx) modifiesKeys(fn *types.Func, item string, as *assignedSet) {
	e, err := parseSpecExpr(item)
	if err != nil {
		return
	}
	sig := fn.Type().(*types.Signature)
	lookup := func(name string) types.Type {
		if r := sig.Recv(); r != nil && r.Name() == name {
			return r.Type()
		}
		for i := 0; i < sig.Params().Len(); i++ {
			if sig.Params().At(i).Name() == name {
				return sig.Params().At(i).Type()
			}
		}
		return nil
	}
	var typeOf func(x *SExpr) types.Type
	typeOf = func(x *SExpr) types.Type {
		switch x.Kind {
		case "ident":
			return lookup(x.Name)
		case "sel":
			bt := typeOf(x.Args[0])
			if bt == nil {
				return nil
			}
			obj, _, _ := lookupFM(bt, fn.Pkg(), x.Name)
			if f, ok := obj.(*types.Var); ok {
				return f.Type()
			}
		case "unary":
			if x.Name == "*" {
				return pointee(typeOf(x.Args[0]))
			}
		}
		return nil
	}
	switch e.Kind {
	case "call":
		if e.Args[0].Kind == "ident" {
			if gf, ok := fc.eng.contracts.GhostFields[e.Args[0].Name]; ok {
				s, _ := fc.sortOfTypeName(gf.Sort, nil)
				as.fields["GF$"+gf.Name] = s
			}
		}
	case "sel":
		bt := typeOf(e.Args[0])
		if bt != nil {
			obj, _, _ := lookupFM(bt, fn.Pkg(), e.Name)
			if f, ok := obj.(*types.Var); ok {
				as.fields[fc.fieldKey(f)] = fc.sortOf(f.Origin().Type())
			}
		}
	case "unary":
		if e.Name == "*" {
			if pt := typeOf(e.Args[0]); pt != nil {
				if el := pointee(pt); el != nil {
					if isStruct(el) {
						// all fields of the struct
						stt := types.Unalias(el).Underlying().(*types.Struct)
						for i := 0; i < stt.NumFields(); i++ {
							as.fields[fc.fieldKey(stt.Field(i))] = fc.sortOf(stt.Field(i).Origin().Type())
						}
					} else {
						s := fc.sortOf(el)
						as.fields[fc.memKey(s)] = s
					}
				}
			}
		}
	}
}

func (fc *FuncCtx) havocAssigned(st *State, n ast.Node) {
	as := fc.scanAssigned(n)
	fc.havocSet(st, as)
}

func (fc *FuncCtx) havocSet(st *State, as *assignedSet) {
	for o := range as.objs {
		v, ok := st.env[o]
		if !ok {
			continue
		}
		if v.T == nil {
			continue
		}
		nv := fc.freshConst(o.Name(), v.T.Sort)
		st.env[o] = Val{T: nv, Typ: v.Typ}
		st.assume(fc.typeFacts(nv, o.Type()))
	}
	for k, s := range as.fields {
		st.heap[k] = fc.freshConst(k, ArrayOf(SV, s))
	}
}

func (fc *FuncCtx) loopContract(kind string, keyExpr string, pos token.Pos) *LoopContract {
	fc.loopSeq++
	if fc.contract == nil {
		return nil
	}
	norm := func(s string) string { return strings.Join(strings.Fields(s), "") }
	full := kind + "(" + keyExpr + ")"
	fc.loopKeys[full]++
	occ := fc.loopKeys[full]
	for _, lc := range fc.contract.Loops {
		k := norm(lc.Key)
		if k == fmt.Sprintf("#%d", fc.loopSeq) || k == norm(fmt.Sprintf("%s#%d", full, occ)) || (occ == 1 && k == norm(full)) {
			lc.used = true
			return lc
		}
	}
	return nil
}

func (fc *FuncCtx) checkInvariants(st *State, lc *LoopContract, kind string, pos token.Pos, sc *specCtx) {
	if lc == nil {
		return
	}
	for _, inv := range lc.Invariants {
		if inv.Unproved || inv.Free {
			continue
		}
		g := fc.evalSpecBool(st, inv.Expr, sc)
		fc.emit(st, kind, "loop invariant", g, pos, inv.Text)
	}
}

func (fc *FuncCtx) assumeInvariants(st *State, lc *LoopContract, sc *specCtx) {
	if lc == nil {
		return
	}
	for _, inv := range lc.Invariants {
		if inv.Unproved {
			continue
		}
		if inv.Free {
			fc.note("free (assumed) loop invariant: " + inv.Text)
		}
		fc.noOblig++
		g := fc.evalSpecBool(st, inv.Expr, sc)
		fc.noOblig--
		st.assume(g)
	}
}

func (fc *FuncCtx) loopSpecCtx(st *State, bodyPos token.Pos) *specCtx {
	return &specCtx{names: st.names, old: fc.entry, pos: bodyPos, pkg: fc.pkg.Types}
}

func (fc *FuncCtx) execFor(st *State, x *ast.ForStmt) flow {
	myLabel := fc.pendingLabel
	fc.pendingLabel = ""
	if x.Init != nil {
		r := fc.execStmt(st, x.Init)
		st = r.next
		if st == nil {
			return flow{}
		}
	}
	condText := "true"
	if x.Cond != nil {
		condText = types.ExprString(x.Cond)
	}
	lc := fc.loopContract("for", condText, x.Pos())
	bodyPos := x.Body.Lbrace + 1
	// 1. invariant holds on entry
	fc.checkInvariants(st, lc, "inv-init", x.Pos(), fc.loopSpecCtx(st, bodyPos))
	// 2. havoc
	as := fc.scanAssigned(x.Body)
	if x.Post != nil {
		as2 := fc.scanAssigned(x.Post)
		for o := range as2.objs {
			as.objs[o] = true
		}
		for k, s := range as2.fields {
			as.fields[k] = s
		}
	}
	head := st.clone()
	fc.havocSet(head, as)
	fc.havocGhost(head, x.Body)
	fc.assumeInvariants(head, lc, fc.loopSpecCtx(head, bodyPos))
	// 3. guard
	var cond *Term = TTrue
	if x.Cond != nil {
		cond = fc.evalExpr(head, x.Cond).T
	}
	body := head.clone()
	body.assume(cond)
	fc.emitCover(body, "loop body reachable", x.Pos())
	fc.loopDepthPos = append(fc.loopDepthPos, x.Pos())
	bf := fc.execBlock(body, x.Body.List)
	fc.loopDepthPos = fc.loopDepthPos[:len(fc.loopDepthPos)-1]
	lcMine, lcRest := takeLabelled(bf.lcont, myLabel)
	lbMine, lbRest := takeLabelled(bf.lbrk, myLabel)
	ends := append(append([]*State{bf.next}, bf.cont...), lcMine...)
	for _, e := range ends {
		if e == nil {
			continue
		}
		if x.Post != nil {
			r := fc.execStmt(e, x.Post)
			e = r.next
		}
		fc.checkInvariants(e, lc, "inv-keep", x.Pos(), fc.loopSpecCtx(e, bodyPos))
	}
	exit := head.clone()
	exit.assume(Not(cond))
	if x.Cond == nil {
		exit = nil
	}
	outs := append(append([]*State{exit}, bf.brk...), lbMine...)
	return flow{next: fc.merge(outs), lbrk: lbRest, lcont: lcRest}
}

func (fc *FuncCtx) execRange(st *State, x *ast.RangeStmt) flow {
	myLabel := fc.pendingLabel
	fc.pendingLabel = ""
	xt := fc.info.TypeOf(x.X)
	keyText := types.ExprString(x.X)
	lc := fc.loopContract("range", keyText, x.Pos())
	bodyPos := x.Body.Lbrace + 1
	rv := fc.evalExpr(st, x.X)

	under := types.Unalias(xt).Underlying()
	if tp, ok := types.Unalias(xt).(*types.TypeParam); ok {
		under = coreOf(tp).Underlying()
	}
	// index ghost
	idxName := "$i"
	var n *Term
	kind := ""
	switch tt := under.(type) {
	case *types.Basic:
		if tt.Info()&types.IsInteger != 0 {
			kind = "int"
			n = rv.T
		} else if tt.Info()&types.IsString != 0 {
			kind = "string"
			n = App("str$len", SInt, rv.T)
			st.assume(Ge(n, IntLit(0)))
		}
	case *types.Slice, *types.Array:
		kind = "slice"
		n = SliceLen(rv.T)
	case *types.Pointer:
		if _, ok := tt.Elem().Underlying().(*types.Array); ok {
			kind = "slice"
			l := fc.derefLoc(st, rv, x.Pos())
			rv = Val{T: fc.readLoc(st, l), Typ: tt.Elem()}
			n = SliceLen(rv.T)
		}
	case *types.Map:
		kind = "map"
		n = App("mapcard$"+sortTag(rv.T.Sort), SInt, rv.T)
		st.assume(Ge(n, IntLit(0)))
	case *types.Signature:
		kind = "seq"
		if rv.T == nil {
			// iterator given as function value without term: opaque sequence
			rv = Val{T: fc.freshConst("seq", SV), Typ: xt}
		}
		n = App("seqlen", SInt, rv.T)
		st.assume(Ge(n, IntLit(0)))
	}
	if kind == "" {
		fc.abstract("unsupported range over "+xt.String(), x.Pos())
		fc.havocAssigned(st, x.Body)
		return flow{next: st}
	}
	// names visible to invariants (saved and restored: an enclosing loop has its own $i / $n / $seq)
	savedNames := map[string]Val{}
	for _, k := range []string{"$n", "$seq", idxName} {
		if v, ok := st.names[k]; ok {
			savedNames[k] = v
		}
	}
	st.names["$n"] = Val{T: n, Typ: types.Typ[types.Int]}
	st.names["$seq"] = rv
	i0 := IntLit(0)
	st.names[idxName] = Val{T: i0, Typ: types.Typ[types.Int]}
	// bind loop vars for init check (index = 0)
	initSt := st.clone()
	fc.bindRangeVars(initSt, x, kind, rv, i0, under, false)
	fc.checkInvariants(initSt, lc, "inv-init", x.Pos(), fc.loopSpecCtx(initSt, bodyPos))

	as := fc.scanAssigned(x.Body)
	head := st.clone()
	fc.havocSet(head, as)
	fc.havocGhost(head, x.Body)
	k := fc.freshConst("k", SInt)
	head.assume(And(Le(IntLit(0), k), Le(k, n)))
	head.names[idxName] = Val{T: k, Typ: types.Typ[types.Int]}
	invSt := head.clone()
	fc.bindRangeVars(invSt, x, kind, rv, k, under, false)
	fc.assumeInvariants(invSt, lc, fc.loopSpecCtx(invSt, bodyPos))
	head.pc = invSt.pc

	body := head.clone()
	body.assume(Lt(k, n))
	fc.bindRangeVars(body, x, kind, rv, k, under, true)
	fc.emitCover(body, "loop body reachable", x.Pos())
	fc.loopDepthPos = append(fc.loopDepthPos, x.Pos())
	bf := fc.execBlock(body, x.Body.List)
	fc.loopDepthPos = fc.loopDepthPos[:len(fc.loopDepthPos)-1]
	lcMine, lcRest := takeLabelled(bf.lcont, myLabel)
	lbMine, lbRest := takeLabelled(bf.lbrk, myLabel)
	ends := append(append([]*State{bf.next}, bf.cont...), lcMine...)
	for _, e := range ends {
		if e == nil {
			continue
		}
		k1 := Add(k, IntLit(1))
		e.names[idxName] = Val{T: k1, Typ: types.Typ[types.Int]}
		e2 := e.clone()
		fc.bindRangeVars(e2, x, kind, rv, k1, under, false)
		fc.checkInvariants(e2, lc, "inv-keep", x.Pos(), fc.loopSpecCtx(e2, bodyPos))
	}
	exit := head.clone()
	exit.assume(Eq(k, n))
	// after the loop the index var (if declared outside with =) — Go 1.22 per-iteration vars: not visible after loop
	outs := append(append([]*State{exit}, bf.brk...), lbMine...)
	out := fc.merge(outs)
	if out != nil {
		for _, k := range []string{"$n", "$seq", idxName} {
			if v, ok := savedNames[k]; ok {
				out.names[k] = v
			} else {
				delete(out.names, k)
			}
		}
	}
	return flow{next: out, lbrk: lbRest, lcont: lcRest}
}

func sortTag(s *Sort) string {
	return strings.NewReplacer("(", "", ")", "", " ", "_").Replace(s.String())
}

// bindRangeVars sets key/value variables for iteration index k.
func (fc *FuncCtx) bindRangeVars(st *State, x *ast.RangeStmt, kind string, rv Val, k *Term, under types.Type, facts bool) {
	setVar := func(e ast.Expr, v Val) {
		if e == nil {
			return
		}
		id, ok := e.(*ast.Ident)
		if !ok || id.Name == "_" {
			return
		}
		obj := fc.info.ObjectOf(id)
		if obj == nil {
			return
		}
		v.T = fc.coerce(st, v, obj.Type())
		v.Typ = obj.Type()
		st.env[obj] = v
		if facts {
			st.assume(fc.typeFacts(v.T, obj.Type()))
		}
	}
	switch kind {
	case "int":
		setVar(x.Key, Val{T: k, Typ: types.Typ[types.Int]})
	case "slice":
		setVar(x.Key, Val{T: k, Typ: types.Typ[types.Int]})
		if x.Value != nil {
			var et types.Type
			switch tt := under.(type) {
			case *types.Slice:
				et = tt.Elem()
			case *types.Array:
				et = tt.Elem()
			case *types.Pointer:
				et = tt.Elem().Underlying().(*types.Array).Elem()
			}
			setVar(x.Value, Val{T: SliceAt(rv.T, k), Typ: et})
		}
	case "string":
		setVar(x.Key, Val{T: k, Typ: types.Typ[types.Int]})
		if x.Value != nil {
			fc.note("range over string: one rune per byte assumed (ASCII)")
			setVar(x.Value, Val{T: App("str$at", SInt, rv.T, k), Typ: types.Typ[types.Rune]})
		}
	case "map":
		mt := under.(*types.Map)
		key := App("mapkey$"+sortTag(rv.T.Sort), rv.T.Sort.Key, rv.T, k)
		if facts {
			st.assume(Select(MapDom(rv.T), key))
		}
		setVar(x.Key, Val{T: key, Typ: mt.Key()})
		if x.Value != nil {
			setVar(x.Value, Val{T: Select(MapArr(rv.T), key), Typ: mt.Elem()})
		}
	case "seq":
		sig := under.(*types.Signature)
		// iter.Seq[V] = func(yield func(V) bool) ; Seq2[K,V]
		if sig.Params().Len() == 1 {
			if ys, ok := types.Unalias(sig.Params().At(0).Type()).Underlying().(*types.Signature); ok {
				if ys.Params().Len() >= 1 && x.Key != nil {
					t0 := ys.Params().At(0).Type()
					setVar(x.Key, Val{T: App("seqat$"+sortTag(fc.sortOf(t0)), fc.sortOf(t0), rv.T, k), Typ: t0})
				}
				if ys.Params().Len() >= 2 && x.Value != nil {
					t1 := ys.Params().At(1).Type()
					setVar(x.Value, Val{T: App("seqat2$"+sortTag(fc.sortOf(t1)), fc.sortOf(t1), rv.T, k), Typ: t1})
				}
			}
		}
	}
}

// noteSliceCopy records "x := y" / "x = y" between slice variables when it happens inside a loop and y is declared
// outside that loop: the two headers share one backing array in every iteration. The model gives slices value
// semantics, so an append through x that may write into the shared array is outside the model (see evalBuiltin).
func (fc *FuncCtx) noteSliceCopy(dst types.Object, x *ast.AssignStmt, i int) {
	if fc.sliceCopies == nil {
		fc.sliceCopies = map[types.Object]types.Object{}
	}
	delete(fc.sliceCopies, dst)
	if len(fc.loopDepthPos) == 0 || len(x.Rhs) != len(x.Lhs) {
		return
	}
	id, ok := ast.Unparen(x.Rhs[i]).(*ast.Ident)
	if !ok {
		return
	}
	src := fc.info.ObjectOf(id)
	if src == nil || src == dst {
		return
	}
	if _, isSlice := types.Unalias(src.Type()).Underlying().(*types.Slice); !isSlice {
		return
	}
	loopPos := fc.loopDepthPos[len(fc.loopDepthPos)-1]
	if src.Pos() < loopPos {
		fc.sliceCopies[dst] = src
	}
}
