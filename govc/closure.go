package main

import (
	"go/ast"
	"go/token"
	"go/types"
	"strconv"
	"strings"
)

// Function literals.
//
// A literal that (a) is written directly as an argument of a call, (b) has a body of the form
//     { if c1 { return e1 } ... if ck { return ek } ; return e }
// and (c) captures only variables that are assigned at most once in the enclosing function, is modelled
// exactly: it evaluates to a fresh function value f together with the axiom
//     forall x. apply(f, x) = ite(c1, e1, ... e)
// where the conditions and results are evaluated symbolically in the state at the point of creation
// (the callee is assumed to invoke it before anything it reads is overwritten: the literal is consumed by the call
// it is an argument of). Every other literal stays an opaque value.

type closureInfo struct {
	argLits   map[*ast.FuncLit]bool
	assignCnt map[types.Object]int
}

func (fc *FuncCtx) closureScan() *closureInfo {
	if fc.closures != nil {
		return fc.closures
	}
	ci := &closureInfo{argLits: map[*ast.FuncLit]bool{}, assignCnt: map[types.Object]int{}}
	fc.closures = ci
	if fc.decl == nil || fc.decl.Body == nil {
		return ci
	}
	bump := func(e ast.Expr) {
		for {
			switch x := e.(type) {
			case *ast.ParenExpr:
				e = x.X
				continue
			case *ast.IndexExpr:
				e = x.X
				continue
			case *ast.StarExpr:
				return
			case *ast.SelectorExpr:
				return
			case *ast.Ident:
				if o := fc.info.ObjectOf(x); o != nil {
					ci.assignCnt[o]++
				}
			}
			return
		}
	}
	ast.Inspect(fc.decl.Body, func(n ast.Node) bool {
		switch x := n.(type) {
		case *ast.CallExpr:
			for _, a := range x.Args {
				if fl, ok := a.(*ast.FuncLit); ok {
					ci.argLits[fl] = true
				}
			}
		case *ast.AssignStmt:
			for _, l := range x.Lhs {
				bump(l)
			}
		case *ast.IncDecStmt:
			bump(x.X)
			bump(x.X)
		case *ast.RangeStmt:
			// loop variables change every iteration
			if x.Key != nil {
				bump(x.Key)
				bump(x.Key)
			}
			if x.Value != nil {
				bump(x.Value)
				bump(x.Value)
			}
		case *ast.UnaryExpr:
			if x.Op == token.AND {
				bump(x.X)
				bump(x.X)
			}
		}
		return true
	})
	return ci
}

type closureArm struct {
	cond ast.Expr // nil for the final return
	ret  *ast.ReturnStmt
}

func closureArms(fl *ast.FuncLit) ([]closureArm, bool) {
	var arms []closureArm
	list := fl.Body.List
	if len(list) == 0 {
		return nil, false
	}
	for i, s := range list {
		last := i == len(list)-1
		switch x := s.(type) {
		case *ast.ReturnStmt:
			if !last {
				return nil, false
			}
			arms = append(arms, closureArm{ret: x})
		case *ast.IfStmt:
			if last || x.Init != nil || x.Else != nil || len(x.Body.List) != 1 {
				return nil, false
			}
			r, ok := x.Body.List[0].(*ast.ReturnStmt)
			if !ok {
				return nil, false
			}
			arms = append(arms, closureArm{cond: x.Cond, ret: r})
		default:
			return nil, false
		}
	}
	return arms, true
}

func termHasFreshAfter(t *Term, after int, allowed map[string]bool, seen map[*Term]bool) bool {
	if t == nil || seen[t] {
		return false
	}
	seen[t] = true
	if len(t.Args) == 0 && len(t.Bound) == 0 {
		if i := strings.LastIndexByte(t.Op, '!'); i >= 0 && !allowed[t.Op] {
			if n, err := strconv.Atoi(t.Op[i+1:]); err == nil && n > after {
				return true
			}
		}
	}
	for _, a := range t.Args {
		if termHasFreshAfter(a, after, allowed, seen) {
			return true
		}
	}
	return false
}

func (fc *FuncCtx) closureVal(st *State, fl *ast.FuncLit, typ types.Type) Val {
	v := fc.closureVal0(st, fl, typ)
	if v.T == nil && fc.closureScan().argLits[fl] {
		// an opaque literal handed to a callee may run there: whatever its body assigns (captured variables,
		// fields, pointees) is unknown afterwards
		fc.havocAssigned(st, fl.Body)
	}
	return v
}

func (fc *FuncCtx) closureVal0(st *State, fl *ast.FuncLit, typ types.Type) (out Val) {
	opaque := Val{Fn: fl, Typ: typ}
	sig, ok := types.Unalias(typ).Underlying().(*types.Signature)
	if !ok || sig.Variadic() || sig.Results().Len() == 0 || sig.Results().Len() > 2 || fl.Type.Results == nil {
		return opaque
	}
	for _, f := range fl.Type.Results.List {
		if len(f.Names) > 0 {
			return opaque
		}
	}
	ci := fc.closureScan()
	if !ci.argLits[fl] {
		return opaque
	}
	arms, ok := closureArms(fl)
	if !ok {
		return opaque
	}
	for _, a := range arms {
		if len(a.ret.Results) != sig.Results().Len() {
			return opaque
		}
	}
	// captured variables must be single-assignment; no nested literals
	bad := false
	ast.Inspect(fl.Body, func(n ast.Node) bool {
		switch x := n.(type) {
		case *ast.FuncLit:
			bad = true
		case *ast.Ident:
			if v, ok := fc.info.ObjectOf(x).(*types.Var); ok && !v.IsField() {
				inside := v.Pos() >= fl.Pos() && v.Pos() <= fl.End()
				if !inside && v.Parent() != nil && v.Parent() != v.Pkg().Scope() && ci.assignCnt[v] > 1 {
					bad = true
				}
			}
		}
		return !bad
	})
	if bad {
		return opaque
	}
	savedCallee, savedInSpec, savedNoName, savedArgs, savedRecv, savedPos, savedInv := fc.curCallee, fc.inSpec, fc.noName, fc.curArgExprs, fc.curRecvExpr, fc.specPos, fc.inTypeInv
	savedNoOblig := fc.noOblig
	defer func() {
		if r := recover(); r != nil {
			// an evaluation abandoned half-way must not leave the context of a callee's contract behind
			fc.curCallee, fc.inSpec, fc.noName, fc.curArgExprs, fc.curRecvExpr, fc.specPos, fc.inTypeInv = savedCallee, savedInSpec, savedNoName, savedArgs, savedRecv, savedPos, savedInv
			fc.noOblig = savedNoOblig
			if _, isEng := r.(engineError); isEng {
				out = opaque
				return
			}
			panic(r)
		}
	}()
	startFresh := fc.fresh
	st2 := st.clone()
	fc.noOblig++
	defer func() { fc.noOblig-- }()
	allowed := map[string]bool{}
	var bound []*Term
	var bvals []Val
	for _, f := range fl.Type.Params.List {
		pt := fc.info.TypeOf(f.Type)
		names := f.Names
		if len(names) == 0 {
			names = []*ast.Ident{nil}
		}
		for _, nm := range names {
			base := "cl$arg"
			if nm != nil {
				base = "cl$" + nm.Name
			}
			c := BVar(fc.freshName(base), fc.sortOf(pt))
			bound = append(bound, c)
			bvals = append(bvals, Val{T: c, Typ: pt})
			if nm != nil && nm.Name != "_" {
				if o := fc.info.ObjectOf(nm); o != nil {
					fc.assignObj(st2, o, Val{T: c, Typ: pt})
				}
			}
		}
	}
	n := sig.Results().Len()
	type armT struct {
		cond *Term
		res  []*Term
	}
	var evald []armT
	for _, a := range arms {
		var at armT
		if a.cond != nil {
			cv := fc.evalExpr(st2, a.cond)
			if cv.T == nil || cv.T.Sort.Kind != "Bool" {
				return opaque
			}
			at.cond = cv.T
		}
		for i, re := range a.ret.Results {
			rv := fc.evalExpr(st2, re)
			if rv.T == nil {
				return opaque
			}
			at.res = append(at.res, fc.coerce(st2, rv, sig.Results().At(i).Type()))
		}
		evald = append(evald, at)
	}
	body := make([]*Term, n)
	for i := 0; i < n; i++ {
		cur := evald[len(evald)-1].res[i]
		for k := len(evald) - 2; k >= 0; k-- {
			cur = Ite(evald[k].cond, evald[k].res[i], cur)
		}
		body[i] = cur
	}
	// the body must be free of side effects on the heap (a callee with a modifies clause would change it)
	for k, v := range st2.heap {
		if st.heap[k] != v {
			if _, had := st.heap[k]; had || len(v.Args) > 0 {
				fc.note("function literal with side effects kept opaque")
				return opaque
			}
		}
	}
	seen := map[*Term]bool{}
	for _, b := range body {
		if termHasFreshAfter(b, startFresh, allowed, seen) {
			fc.note("function literal with a non-functional body kept opaque")
			return opaque
		}
	}
	fv := fc.freshConst("closure", SV)
	var resT types.Type = sig.Results()
	if n == 1 {
		resT = sig.Results().At(0).Type()
	}
	ap := fc.applyFnValue(st2, Val{T: fv, Typ: typ}, bvals, resT)
	var aps []*Term
	if n == 1 {
		aps = []*Term{ap.T}
	} else {
		for _, v := range ap.Tuple {
			aps = append(aps, v.T)
		}
	}
	for i := 0; i < n; i++ {
		if !aps[i].Sort.Eq(body[i].Sort) {
			return opaque
		}
		st.assume(Forall(bound, Eq(aps[i], body[i]), []*Term{aps[i]}))
	}
	fc.note("function literal modelled by its defining equation (single-assignment captures; consumed by the call it is passed to)")
	return Val{Fn: fl, T: fv, Typ: typ}
}
