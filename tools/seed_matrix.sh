#!/bin/bash
# usage: seed_matrix.sh [seed-id ...]   -- runs every seeded change (or the listed ones) against the quick contracts of
# its own property, in memory (go/packages overlay: /repo is not modified), 4 at a time; records the result in meta.json
cd /verif
CLAIMED=$(python3 -c "import json;print(' '.join(c['property_id'] for c in json.load(open('MANIFEST.json'))['checks']))")
SEEDS=${@:-$(ls seeded)}
run_one(){
  s=$1; p=${s%%-*}
  if ! echo " $CLAIMED " | grep -q " $p "; then echo "$s: property $p not claimed"; return; fi
  out=$(./bin/govc seed seeded/$s $p 2>&1); code=$?
  echo "$out" | tail -n 1
  python3 - "seeded/$s/meta.json" "$p" "$code" "$out" <<'PY'
import json,sys,re
m=json.load(open(sys.argv[1]))
obs=sorted(set(re.findall(r'FAIL (\S+)',sys.argv[4])))
m.setdefault('checked_against',{})[sys.argv[2]]={"exit":int(sys.argv[3]),"detected":int(sys.argv[3])==1,"failing_obligations":obs[:12],"how":"govc seed (patch applied in memory through the go/packages overlay)"}
json.dump(m,open(sys.argv[1],'w'),indent=1)
PY
}
export -f run_one; export CLAIMED
echo $SEEDS | tr ' ' '\n' | xargs -P 4 -I{} bash -c 'run_one {}'
