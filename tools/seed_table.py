#!/usr/bin/env python3
# Regenerates the markdown table of DESIGN.md section 9.4 from seeded/*/meta.json (prints to stdout).
import json, os, re
root = '/verif/seeded'
print('| seed | where | detected | failing obligation(s) |')
print('|---|---|---|---|')
for s in sorted(os.listdir(root)):
    m = json.load(open(f'{root}/{s}/meta.json'))
    p = s.split('-')[0]
    ca = m.get('checked_against', {}).get(p, {})
    where = re.sub(r'\s+', ' ', (m.get('summary') or ''))[:96].replace('|', '/')
    obs = ', '.join(o.split('/')[-1] for o in ca.get('failing_obligations', [])[:2])
    print(f"| {s} | {where} | {'yes' if ca.get('detected') else 'NO'} | {obs} |")
