#!/bin/bash
# usage: mk_agent_wt.sh <ID>  -- scratch worktree /tmp/wt/<ID> of /repo HEAD without the contract files (so that what a
# seeding agent writes is independent of what the contracts can detect)
set -e
ID=$1; WT=/tmp/wt/$ID
mkdir -p /tmp/wt
git -C /repo worktree add --detach "$WT" HEAD >/dev/null 2>&1
cd "$WT"
for f in $(git ls-files | grep 'zz_contracts.*_verif.go$'); do git update-index --skip-worktree "$f"; rm -f "$f"; done
echo "$WT"
