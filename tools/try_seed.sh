#!/bin/bash
# usage: try_seed.sh <seeded-dir> [property]   -- applies the seeded change to /repo, runs the property's quick check, reverts
D=$1
P=${2:-$(python3 -c "import json;print(json.load(open('$D/meta.json'))['property'])")}
cd /repo && git apply "$D/patch.diff" || { echo "patch failed to apply"; exit 2; }
cd /verif && ./check $P > /tmp/try_seed.out 2>&1; code=$?
cd /repo && git apply -R "$D/patch.diff"
grep -E "VIOLATION|KNOWN|^$P:" /tmp/try_seed.out | cut -c1-230 | head -8
python3 - "$D/meta.json" "$P" "$code" <<'PY'
import json,sys,re
m=json.load(open(sys.argv[1]))
out=open('/tmp/try_seed.out').read()
obs=sorted(set(re.findall(r'obligation (\S+)',out)))
m.setdefault('checked_against',{})[sys.argv[2]]={"exit":int(sys.argv[3]),"detected":int(sys.argv[3])==1,"failing_obligations":obs[:12]}
json.dump(m,open(sys.argv[1],'w'),indent=1)
PY
echo "exit=$code"
