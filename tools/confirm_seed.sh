#!/bin/bash
# usage: confirm_seed.sh <srcdir with patch.diff demo_test.go meta.json> <outdir under /verif/seeded>
# Confirms in a scratch worktree: patch applies, builds, demo fails with it and passes without, pinned suite unchanged.
set -u
SRC=$1; OUT=$2
WT=$(mktemp -d /tmp/seedwt.XXXXXX)
git -C /repo worktree add --detach "$WT" HEAD >/dev/null 2>&1 || { echo "worktree failed"; exit 2; }
cleanup(){ git -C /repo worktree remove --force "$WT" >/dev/null 2>&1; rm -rf "$WT"; }
trap cleanup EXIT
cd "$WT"
DEMO_PATH=$(python3 -c "import json,sys;print(json.load(open('$SRC/meta.json')).get('demo_path',''))")
DEMO_CMD=$(python3 -c "import json,sys;print(json.load(open('$SRC/meta.json')).get('demo_cmd',''))")
DEMO_PATH=${DEMO_PATH#/tmp/wt/*/}
[ -z "$DEMO_PATH" ] && { echo "no demo_path"; exit 2; }
DEMO_FILE=$(ls $SRC/demo_test.go 2>/dev/null || ls $SRC/*_test.go | head -1)
mkdir -p "$(dirname "$DEMO_PATH")"; cp "$DEMO_FILE" "$DEMO_PATH"
# normalise the demo command to run here
CMD=$(echo "$DEMO_CMD" | sed -E "s#cd (/tmp/wt/[A-Z0-9]+|<repo>) *&& *##; s#/tmp/wt/[A-Z0-9]+/##g")
echo "demo cmd: $CMD"
R_UNCH=$(bash -c "$CMD" 2>&1 | tail -3); S_UNCH=$?
bash -c "$CMD" >/tmp/seed_unch.$$ 2>&1; S_UNCH=$?
git apply "$SRC/patch.diff" || { echo "patch does not apply"; exit 2; }
go build -tags purego ./... >/tmp/seed_build.$$ 2>&1; S_BUILD=$?
bash -c "$CMD" >/tmp/seed_ch.$$ 2>&1; S_CH=$?
# pinned suite with the change (ok-set must equal baseline)
rm -f "$DEMO_PATH"
go test -vet=off -count=1 ./... 2>&1 | grep -E '^ok' | awk '{print $2}' | sort > /tmp/seed_ok.$$
N_OK=$(wc -l < /tmp/seed_ok.$$)
PINFAIL=$(go test -vet=off -count=1 ./... 2>&1 | grep -E '^(--- FAIL|FAIL)' | grep -v 'build failed' | grep -v '^FAIL$' | head -5)
echo "unchanged demo exit=$S_UNCH ; build exit=$S_BUILD ; changed demo exit=$S_CH ; pinned ok packages=$N_OK ; pinned failures: [$PINFAIL]"
if [ $S_UNCH -eq 0 ] && [ $S_BUILD -eq 0 ] && [ $S_CH -ne 0 ] && [ $N_OK -eq 30 ] && [ -z "$PINFAIL" ]; then
  mkdir -p "$OUT"; cp "$SRC/patch.diff" "$OUT/"; cp "$DEMO_FILE" "$OUT/demo_test.go"
  python3 - "$SRC/meta.json" "$OUT/meta.json" "$DEMO_PATH" "$CMD" <<'PY'
import json,sys
m=json.load(open(sys.argv[1]))
out={"property":m.get("property"),"summary":m.get("summary"),"needs_to_manifest":m.get("needs_to_manifest"),
 "demo_path":sys.argv[3],"demo_cmd":sys.argv[4],
 "confirmed":{"by":"tools/confirm_seed.sh in a scratch worktree","unchanged_demo":"pass","changed_demo":"fail","build_purego":"ok","pinned_suite_ok_packages":30}}
json.dump(out,open(sys.argv[2],'w'),indent=1)
PY
  echo CONFIRMED; tail -5 /tmp/seed_ch.$$ | cut -c1-200
else
  echo NOT-CONFIRMED; tail -8 /tmp/seed_unch.$$ /tmp/seed_ch.$$ /tmp/seed_build.$$ | cut -c1-200
fi
rm -f /tmp/seed_*.$$
