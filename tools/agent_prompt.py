#!/usr/bin/env python3
"""usage: agent_prompt.py <property-id> <worktree-id>  -- prints the prompt for a seeding sub-agent (property text only)."""
import json,sys,glob
pid,wid=sys.argv[1],sys.argv[2]
p={json.loads(l)['id']:json.loads(l) for l in open('/verif/properties.jsonl')}[pid]
avoid=[]
for d in sorted(glob.glob('/verif/seeded/%s-*'%pid)):
    m=json.load(open(d+'/meta.json')); avoid.append(m['summary'][:160].replace('\n',' '))
t=open('/verif/tools/agent_prompt.tmpl').read()
print(t.format(WT='/tmp/wt/'+wid,ID=pid,IDL=pid.lower()[1:],TITLE=p['title'],STATEMENT=p['statement'],QUANT=p['quantifier']['text'],
  ANCHORS=', '.join(p['anchors']['files'])))
