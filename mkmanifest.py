#!/usr/bin/env python3
"""Regenerates MANIFEST.json from claims.json (property -> level text / note) and properties.jsonl."""
import json, subprocess
props=[json.loads(l) for l in open('/verif/properties.jsonl')]
claims=json.load(open('/verif/claims.json'))
hooks=subprocess.run(['git','-C','/repo','log','--format=%H %s','1da176f..HEAD'],capture_output=True,text=True).stdout.strip().split('\n')
hook_commits=[l.split()[0] for l in hooks if l and 'verif hooks' in l]
checks=[]; na=[]
for p in props:
    pid=p['id']
    c=claims.get(pid)
    if c and c.get('claimed'):
        checks.append({
          "property_id":pid,
          "quick_cmd":"./check %s --tier quick"%pid,
          "thorough_cmd":"./check %s --tier thorough"%pid,
          "evidence_file":"/verif/evidence/%s.json"%pid,
          "replay_cmd_template":"./check %s --replay {path}"%pid,
          "engine":"govc",
          "level_claimed":{"category":"proof","text":c['text'],"design_ref":c.get('design_ref','DESIGN.md §5 '+pid)},
          "level_note":c['note'],
          "technique":"contract-based deductive verification: weakest-precondition VCs generated over go/ast+go/types from //@ contracts on the real functions, discharged by z3/cvc5",
        })
    else:
        na.append({"property_id":pid,"reason":(c or {}).get('reason',"no contract-based check built for this property yet")})
m={"version":1,
 "setup_cmd":"./setup.sh",
 "hooks":{"guard":"verif","enable":"-tags purego,verif (contracts are comment-only files zz_contracts_verif.go, read by govc; never compiled without the tag)",
          "baseline_off_cmd":"cd /repo && go test -vet=off -count=1 ./... ; true","source_commits":hook_commits,"add_only":True},
 "engines":[{"name":"govc","path":"/verif/govc","serves_properties":[c['property_id'] for c in checks],
             "kind_free_text":"verification-condition generator for Go (symbolic execution of the typed AST against requires/ensures/invariant contracts) + SMT portfolio (cvc5, z3 4.8.12, z3 5.1.0)"}],
 "checks":checks,
 "notes":"All checks: exit 0 = every generated obligation discharged; exit 1 + VIOLATION line = an obligation of a function under contract fails (with replay on the real code where the solver gives a model and the function is in the replayable class); exit 2 = engine error. See DESIGN.md.",
 "not_applicable":na}
json.dump(m,open('/verif/MANIFEST.json','w'),indent=1)
print(len(checks),'claimed;',len(na),'not claimed')
