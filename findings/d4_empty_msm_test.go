package k256_test

// Demonstration for finding D4 (property C14): place in pkg/base/curves/k256/ and run
//   go test -tags purego -vet=off -run TestD4EmptyMultiScalarMul ./pkg/base/curves/k256/
// Before the fix commit this panics with "MultiScalarMul: no points"; after it, the result is the identity.

import (
	"testing"

	"github.com/bronlabs/bron-crypto/pkg/base/curves/k256"
)

func TestD4EmptyMultiScalarMul(t *testing.T) {
	p, err := k256.NewCurve().MultiScalarMul(nil, nil)
	if err != nil {
		t.Fatalf("unexpected error: %v", err)
	}
	if !p.IsOpIdentity() {
		t.Fatalf("empty multi-scalar multiplication must be the identity")
	}
}
