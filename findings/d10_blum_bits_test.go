package nt_test

import (
	"crypto/rand"
	"testing"

	"github.com/bronlabs/bron-crypto/pkg/base/nt"
	"github.com/bronlabs/bron-crypto/pkg/base/nt/num"
)

// D10 (C17): GenerateBlumPrime returned primes of ceil(bits/8)*8 bits when bits is not a multiple of 8.
func TestD10BlumPrimeHasRequestedBitLength(t *testing.T) {
	for _, bits := range []uint{16, 17, 20, 23, 24, 33, 61, 127} {
		for range 8 {
			p, err := nt.GenerateBlumPrime(num.NPlus(), bits, rand.Reader)
			if err != nil {
				t.Fatal(err)
			}
			if got := uint(p.Big().BitLen()); got != bits {
				t.Errorf("bits=%d: got a %d-bit prime %s", bits, got, p.Big().String())
				break
			}
			if p.Big().Bit(0) != 1 || p.Big().Bit(1) != 1 || !p.Big().ProbablyPrime(20) {
				t.Errorf("bits=%d: %s is not a Blum prime", bits, p.Big().String())
			}
		}
	}
}
