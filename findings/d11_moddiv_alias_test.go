package modular_test

import (
	"testing"

	"github.com/bronlabs/bron-crypto/pkg/base/ct"
	"github.com/bronlabs/bron-crypto/pkg/base/nt/modular"
	"github.com/bronlabs/bron-crypto/pkg/base/nt/numct"
)

// D11 (C17): ModDiv of the CRT-accelerated moduli returned b^-2 instead of a/b when out aliased a.
func TestD11ModDivOutAliasesNumerator(t *testing.T) {
	p := numct.NewNat(1000003)
	q := numct.NewNat(1000033)
	m, ok := modular.NewOddPrimeFactors(p, q)
	if ok != ct.True {
		t.Fatal("modulus")
	}
	m2, ok := modular.NewOddPrimeSquareFactors(p, q)
	if ok != ct.True {
		t.Fatal("square modulus")
	}
	for name, ar := range map[string]modular.Arithmetic{"OddPrimeFactors": m, "OddPrimeSquareFactors": m2} {
		a := numct.NewNat(123456789)
		b := numct.NewNat(987654)
		var want numct.Nat
		if ar.ModDiv(&want, a, b) != ct.True {
			t.Fatalf("%s: not invertible", name)
		}
		// check want*b == a
		var back numct.Nat
		ar.ModMul(&back, &want, b)
		if back.Equal(a) != ct.True {
			t.Fatalf("%s: fresh-output quotient is wrong", name)
		}
		got := a.Clone()
		if ar.ModDiv(got, got, b) != ct.True {
			t.Fatalf("%s: not invertible (aliased)", name)
		}
		if got.Equal(&want) != ct.True {
			t.Errorf("%s: ModDiv(out=a, a, b) = %s, want %s", name, got.String(), want.String())
		}
		got = b.Clone()
		if ar.ModDiv(got, a, got) != ct.True {
			t.Fatalf("%s: not invertible (aliased b)", name)
		}
		if got.Equal(&want) != ct.True {
			t.Errorf("%s: ModDiv(out=b, a, b) = %s, want %s", name, got.String(), want.String())
		}
	}
}
