package cnf

import (
	"cmp"
	"math/rand"
	"testing"

	"github.com/bronlabs/bron-crypto/pkg/base/curves/k256"
	"github.com/bronlabs/bron-crypto/pkg/base/datastructures/bitset"
	ds "github.com/bronlabs/bron-crypto/pkg/base/datastructures"
	"github.com/bronlabs/bron-crypto/pkg/base/datastructures/hashset"
)

func TestD3LargeIDs(t *testing.T) {
	c, err := NewCNFAccessStructure(hashset.NewComparable[ID](1, 2).Freeze(), hashset.NewComparable[ID](2, 100).Freeze())
	if err != nil {
		t.Fatalf("constructor rejected the structure: %v", err)
	}
	defer func() {
		if r := recover(); r != nil {
			t.Fatalf("InducedMSP panicked for shareholder IDs > 64: %v", r)
		}
	}()
	m, err := InducedMSP(k256.NewScalarField(), c)
	if err != nil || m == nil {
		t.Fatalf("InducedMSP failed: %v", err)
	}
}

// for identifiers <= 64 the new order is exactly the old bit-mask order
func TestD3OrderUnchangedForSmallIDs(t *testing.T) {
	rng := rand.New(rand.NewSource(1))
	for it := 0; it < 20000; it++ {
		mk := func() ds.Set[ID] {
			s := hashset.NewComparable[ID]()
			for k := 0; k < 1+rng.Intn(6); k++ {
				s.Add(ID(1 + rng.Intn(64)))
			}
			return s.Freeze()
		}
		a, b := mk(), mk()
		old := cmp.Compare(uint64(bitset.NewImmutableBitSet(a.List()...)), uint64(bitset.NewImmutableBitSet(b.List()...)))
		if got := compareIDSets(a, b); got != old {
			t.Fatalf("order differs for %v vs %v: old %d new %d", a.List(), b.List(), old, got)
		}
	}
}
