package numct

import (
	"math/big"
	"testing"
)

func TestD9EuclideanDivVarTimeSmallNumerator(t *testing.T) {
	mk := func(v int64, capBits int) *Int {
		return NewIntFromBig(big.NewInt(v), capBits)
	}
	n := mk(-7, 3)
	d := mk(-20, 5)
	var q Int
	var r Nat
	ok := q.EuclideanDivVarTime(&r, n, d)
	t.Logf("ok=%v q=%s r=%s (n announced %d, d true %d)", ok, q.Big().String(), r.Big().String(), n.AnnouncedLen(), d.TrueLen())
	// Euclidean division: -7 = 1*(-20) + 13
	if q.Big().Cmp(big.NewInt(1)) != 0 || r.Big().Cmp(big.NewInt(13)) != 0 {
		t.Fatalf("EuclideanDivVarTime(-7, -20) = (q=%s, r=%s), want (1, 13)", q.Big(), r.Big())
	}
}

func TestD9NatEuclideanDivVarTimeSmallNumerator(t *testing.T) {
	n := NewNatFromBig(big.NewInt(0), 1)
	d := NewNatFromBig(big.NewInt(8), 4)
	var q, r Nat
	ok := q.EuclideanDivVarTime(&r, n, d)
	t.Logf("ok=%v q=%s r=%s d(after)=%s qlen=%d", ok, q.Big(), r.Big(), d.Big(), q.AnnouncedLen())
	if d.Big().Cmp(big.NewInt(8)) != 0 {
		t.Fatalf("denominator operand was modified: %s", d.Big())
	}
	if q.Big().Sign() != 0 || r.Big().Sign() != 0 {
		t.Fatalf("0 / 8 = (q=%s, r=%s), want (0, 0)", q.Big(), r.Big())
	}
}
