package threshold

import "testing"

func TestD7NilDTO(t *testing.T) {
	var th Threshold
	defer func() {
		if r := recover(); r != nil {
			t.Fatalf("decoder panicked on CBOR null: %v", r)
		}
	}()
	if err := th.UnmarshalCBOR([]byte{0xf6}); err == nil {
		t.Fatalf("CBOR null accepted")
	}
}
