package lagrange_test

import (
	"testing"

	"github.com/bronlabs/bron-crypto/pkg/base/curves/k256"
	"github.com/bronlabs/bron-crypto/pkg/base/polynomials/interpolation/lagrange"
)

// D12: interpolation in the exponent over an empty node list panics (index out of range) although the scalar
// version returns zero: BasisAt of no nodes is the one-coefficient zero polynomial, and the loop indexes values by it.
func TestD12EmptyInterpolateInExponent(t *testing.T) {
	curve := k256.NewCurve()
	field := k256.NewScalarField()
	at := field.One()
	s, err := lagrange.InterpolateAt([]*k256.Scalar{}, []*k256.Scalar{}, at)
	if err != nil || !s.IsZero() {
		t.Fatalf("scalar interpolation over no nodes: %v %v", s, err)
	}
	p, err := lagrange.InterpolateInExponentAt(curve, []*k256.Scalar{}, []*k256.Point{}, at)
	if err == nil && !p.IsOpIdentity() {
		t.Fatalf("expected the identity (or an error) for no nodes, got %v", p)
	}
}
