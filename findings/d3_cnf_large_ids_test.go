package cnf

import (
	"testing"

	"github.com/bronlabs/bron-crypto/pkg/base/curves/k256"
	"github.com/bronlabs/bron-crypto/pkg/base/datastructures/hashset"
)

func TestD3LargeIDs(t *testing.T) {
	c, err := NewCNFAccessStructure(hashset.NewComparable[ID](1, 2).Freeze(), hashset.NewComparable[ID](2, 100).Freeze())
	if err != nil {
		t.Fatalf("constructor rejected the structure: %v", err)
	}
	defer func() {
		if r := recover(); r != nil {
			t.Fatalf("InducedMSP panicked for shareholder IDs > 64: %v", r)
		}
	}()
	m, err := InducedMSP(k256.NewScalarField(), c)
	if err != nil || m == nil {
		t.Fatalf("InducedMSP failed: %v", err)
	}
}

